"""Translator for autograd/test_util.py (C18): the thresholds TOL / RTOL / EPS (as exact decimal rationals read from the
source text), the comparison scalar_close (its expression is translated into a rational decision procedure), the central
difference scheme of make_numerical_jvp and the comparisons made by check_vjp / check_jvp / check_equivalent.
Output: coq/gen/GenChecker.v; Operators/CheckerTie.v proves the hand-written model (Checker.v, Run18.v) equal to it.
Fail-closed."""
import ast
import os
from fractions import Fraction

from .engine import Mismatch, need, fun_def, src, code


def const_q(tree, text, name):
    for n in tree.body:
        if isinstance(n, ast.Assign) and len(n.targets) == 1 and isinstance(n.targets[0], ast.Name) and n.targets[0].id == name:
            need(isinstance(n.value, ast.Constant) and isinstance(n.value.value, (int, float)), "%s is not a numeric literal" % name)
            lit = ast.get_source_segment(text, n.value)
            q = Fraction(lit)          # the decimal literal as written, exactly
            need(q > 0, "%s is not positive" % name)
            return q
    raise Mismatch("%s not found" % name)


def qlit(q):
    return "(%d # %d)" % (q.numerator, q.denominator)


def tr_close(tree):
    """scalar_close's return expression -> Gallina boolean over Q.  `abs(E) < T` -> Qabs E < T;  `X / Y < T` additionally
    requires Y <> 0 (on float64 x / 0 is inf or nan and the comparison is False)."""
    f = fun_def(tree, "scalar_close")
    need([a.arg for a in f.args.args] == ["a", "b"], "scalar_close signature")
    fb = code(f.body)
    need(len(fb) == 1 and isinstance(fb[0], ast.Return), "scalar_close is not a single return")

    def ex(e):
        if isinstance(e, ast.Name) and e.id in ("a", "b"):
            return e.id
        if isinstance(e, ast.Name) and e.id in ("TOL", "RTOL"):
            return "gen_" + e.id
        if isinstance(e, ast.BinOp) and isinstance(e.op, (ast.Add, ast.Sub)):
            return "(%s %s %s)" % (ex(e.left), "+" if isinstance(e.op, ast.Add) else "-", ex(e.right))
        if isinstance(e, ast.Call) and src(e.func) == "abs" and len(e.args) == 1:
            return "(Qabs %s)" % ex(e.args[0])
        raise Mismatch("expression %r in scalar_close" % src(e))

    def cmp(e):
        need(isinstance(e, ast.Compare) and len(e.ops) == 1 and isinstance(e.ops[0], ast.Lt), "comparison %r" % src(e))
        l, r = e.left, e.comparators[0]
        if isinstance(l, ast.BinOp) and isinstance(l.op, ast.Div):
            num, den = ex(l.left), ex(l.right)
            return "(negb (Qeq_bool %s 0) && qltb (%s / %s) %s)" % (den, num, den, ex(r))
        return "qltb %s %s" % (ex(l), ex(r))
    v = fb[0].value
    need(isinstance(v, ast.BoolOp) and isinstance(v.op, ast.Or) and len(v.values) == 2, "scalar_close is not `c1 or c2`")
    return "(%s) || %s" % (cmp(v.values[0]), cmp(v.values[1]))


def tr_numerical(tree):
    f = fun_def(tree, "make_numerical_jvp")
    inner = [n for n in f.body if isinstance(n, ast.FunctionDef) and n.name == "jvp"]
    need(len(inner) == 1, "make_numerical_jvp.jvp")
    text = [src(n) for n in inner[0].body if not (isinstance(n, ast.Expr) and isinstance(n.value, ast.Constant))]
    need(text == ["f_x_plus = f(x_vs.add(x, x_vs.scalar_mul(v, EPS / 2)))",
                  "f_x_minus = f(x_vs.add(x, x_vs.scalar_mul(v, -EPS / 2)))",
                  "neg_f_x_minus = y_vs.scalar_mul(f_x_minus, -1.0)",
                  "return y_vs.scalar_mul(y_vs.add(f_x_plus, neg_f_x_minus), 1.0 / EPS)"], "the central difference of make_numerical_jvp: %r" % (text,))
    return "GenCentral"


def tr_checks(tree):
    """what check_vjp / check_jvp / check_equivalent compare"""
    cv = fun_def(tree, "check_vjp")
    t = [src(n) for n in cv.body]
    need("assert vspace(vjp_y) == x_vs" in t, "check_vjp asserts the space of the VJP result")
    need(any(s.startswith("assert scalar_close(vjv_numeric, vjv_exact)") for s in t), "check_vjp compares through scalar_close")
    need("vjv_exact = x_vs.inner_prod(x_v, vjp_y)" in t and "vjv_numeric = y_vs.inner_prod(y_v, jvp(x_v))" in t, "the two numbers check_vjp compares")
    ce = fun_def(tree, "check_equivalent")
    t = [src(n) for n in ce.body]
    need(any(s.startswith("assert x_vs == y_vs") for s in t), "check_equivalent asserts equal spaces")
    need(any(s.startswith("assert scalar_close(x_vs.inner_prod(x, v), x_vs.inner_prod(y, v))") for s in t), "check_equivalent compares through scalar_close")
    cj = fun_def(tree, "check_jvp")
    t = [src(n) for n in cj.body]
    need("check_equivalent(jvp(x_v)[1], jvp_numeric(x_v))" in t, "check_jvp compares the tangent with the numerical one")
    return True


def run(repo, gen):
    path = os.path.join(repo, "autograd", "test_util.py")
    text = open(path).read()
    tree = ast.parse(text)
    tol, rtol, eps = const_q(tree, text, "TOL"), const_q(tree, text, "RTOL"), const_q(tree, text, "EPS")
    close = tr_close(tree)
    scheme = tr_numerical(tree)
    tr_checks(tree)
    out = """(* GENERATED by harness/translators/checker.py from autograd/test_util.py - do not edit. *)
From Coq Require Import QArith Qabs Bool.
Local Open Scope Q_scope.

Definition qltb (x y : Q) : bool := if Qlt_le_dec x y then true else false.
Definition gen_TOL : Q := %s.
Definition gen_RTOL : Q := %s.
Definition gen_EPS : Q := %s.
(* scalar_close(a, b); a quotient with a zero denominator makes its comparison False, as on float64 *)
Definition gen_scalar_close (a b : Q) : bool := %s.
Inductive gen_fd_scheme := GenCentral | GenOneSided.
(* make_numerical_jvp: (f(x + v eps/2) - f(x - v eps/2)) / eps *)
Definition gen_numerical_jvp : gen_fd_scheme := %s.
""" % (qlit(tol), qlit(rtol), qlit(eps), close, scheme)
    p = os.path.join(gen, "GenChecker.v")
    try:
        if open(p).read() == out:
            return {"tol": str(tol)}
    except OSError:
        pass
    with open(p, "w") as f:
        f.write(out)
    return {"tol": str(tol)}
