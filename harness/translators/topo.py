"""Translator for util.toposort and core.backward_pass (the graph layer, C03).

The two while-loops of toposort and the loop of backward_pass are matched against their skeleton (which list is popped,
where the node is yielded, which collection the inner for-loop runs over); the BODIES - the statements that update
child_counts, the two stacks and outgrads - are translated statement by statement into Gallina state transformers:

    D[k] += c  /  D[k] -= c  /  D[k] = c     ->  upd D k (D k + c) ...         (child_counts as a total map, 0 = absent)
    L.append(e)  /  L.extend(parents(node))   ->  e :: L  /  rev (parents node) ++ L      (head of the list = top of the stack)
    k in D  /  D[k] == c  (and the other comparisons)  ->  boolean tests on D k
    outgrads[p] = E,  outgrads.get(p),  add_outgrads(a, b)  ->  og_put / og_get / add_outgrads of Engine/Backward.v

Output: coq/gen/GenTopo.v.  Engine/TopoTie.v proves the hand-written model (Engine/Toposort.v, Engine/Backward.v), about
which the C03 theorems are stated, EQUAL to the generated loops.  Fail-closed: anything outside this grammar raises."""
import ast
import os

from .engine import Mismatch, need, fun_def, src, code


class Body:
    """translate a list of statements into a Gallina expression returning the tuple of the state variables"""

    def __init__(self, lst, dct, node_names, allow_in, allow_sub):
        self.lst, self.dct, self.names = lst, dct, node_names
        self.allow_in, self.allow_sub = allow_in, allow_sub

    def key(self, e):
        need(isinstance(e, ast.Name) and e.id in self.names, "key %r is not one of %s" % (src(e), self.names))
        return e.id

    def const(self, e):
        need(isinstance(e, ast.Constant) and type(e.value) is int and 0 <= e.value < 1000, "constant %r" % src(e))
        return str(e.value)

    def dget(self, e):
        need(isinstance(e, ast.Subscript) and isinstance(e.value, ast.Name) and e.value.id == self.dct, "expected %s[...]: %r" % (self.dct, src(e)))
        return "(%s %s)" % (self.dct, self.key(e.slice))

    def cond(self, t):
        need(isinstance(t, ast.Compare) and len(t.ops) == 1, "condition %r" % src(t))
        op, l, r = t.ops[0], t.left, t.comparators[0]
        if isinstance(op, (ast.In, ast.NotIn)):
            need(self.allow_in, "membership test outside the counting loop (the total-map model of child_counts would not be faithful)")
            need(isinstance(r, ast.Name) and r.id == self.dct, "membership in %r" % src(r))
            c = "negb (Nat.eqb (%s %s) 0)" % (self.dct, self.key(l))
            return c if isinstance(op, ast.In) else "negb (%s)" % c
        a, b = self.dget(l), self.const(r)
        table = {ast.Eq: "Nat.eqb %s %s", ast.NotEq: "negb (Nat.eqb %s %s)", ast.LtE: "Nat.leb %s %s", ast.Lt: "Nat.ltb %s %s"}
        if type(op) in table:
            return table[type(op)] % (a, b)
        if isinstance(op, ast.GtE):
            return "Nat.leb %s %s" % (b, a)
        if isinstance(op, ast.Gt):
            return "Nat.ltb %s %s" % (b, a)
        raise Mismatch("comparison %r" % src(t))

    def stmts(self, ss):
        """-> Gallina expression of type (list nat * (nat -> nat))"""
        if not ss:
            return "(%s, %s)" % (self.lst, self.dct)
        s, rest = ss[0], ss[1:]
        if isinstance(s, ast.If):
            need(not rest, "statements after an if/else are not supported")
            need(s.orelse, "if without else")
            return "(if %s then %s else %s)" % (self.cond(s.test), self.stmts(s.body), self.stmts(s.orelse))
        if isinstance(s, ast.AugAssign):
            k = self.dget(s.target)
            kk = self.key(s.target.slice)
            if isinstance(s.op, ast.Add):
                return "(let %s := upd %s %s (%s + %s) in %s)" % (self.dct, self.dct, kk, k, self.const(s.value), self.stmts(rest))
            if isinstance(s.op, ast.Sub):
                need(self.allow_sub, "decrement inside the counting loop")
                return "(let %s := upd %s %s (%s - %s) in %s)" % (self.dct, self.dct, kk, k, self.const(s.value), self.stmts(rest))
            raise Mismatch("augmented assignment %r" % src(s))
        if isinstance(s, ast.Assign):
            need(len(s.targets) == 1, "multiple targets")
            self.dget(s.targets[0])
            return "(let %s := upd %s %s %s in %s)" % (self.dct, self.dct, self.key(s.targets[0].slice), self.const(s.value), self.stmts(rest))
        if isinstance(s, ast.Expr) and isinstance(s.value, ast.Call) and isinstance(s.value.func, ast.Attribute) \
                and isinstance(s.value.func.value, ast.Name) and s.value.func.value.id == self.lst and len(s.value.args) == 1 and not s.value.keywords:
            m, a = s.value.func.attr, s.value.args[0]
            if m == "append":
                return "(let %s := %s :: %s in %s)" % (self.lst, self.key(a), self.lst, self.stmts(rest))
            if m == "extend":
                need(src(a) == "parents(node)", "extend(%s)" % src(a))
                return "(let %s := rev (parents node) ++ %s in %s)" % (self.lst, self.lst, self.stmts(rest))
        raise Mismatch("statement %r" % src(s))


def tr_toposort(tree):
    f = fun_def(tree, "toposort")
    need([a.arg for a in f.args.args] == ["end_node", "parents"], "toposort signature")
    b = code(f.body)
    need(len(b) == 5, "toposort has %d top-level statements" % len(b))
    need(src(b[0]) == "child_counts = {}" and src(b[1]) == "stack = [end_node]", "initialisation of the counting loop")
    w1 = b[2]
    need(isinstance(w1, ast.While) and src(w1.test) == "stack" and not w1.orelse and len(w1.body) >= 2 and src(w1.body[0]) == "node = stack.pop()",
         "the counting loop pops the last element of `stack` into `node`")
    body1 = Body("stack", "child_counts", ["node"], True, False).stmts(w1.body[1:])
    need(src(b[3]) == "childless_nodes = [end_node]", "initialisation of the emitting loop")
    w2 = b[4]
    need(isinstance(w2, ast.While) and src(w2.test) == "childless_nodes" and not w2.orelse and len(w2.body) == 3
         and src(w2.body[0]) == "node = childless_nodes.pop()" and src(w2.body[1]) == "yield node", "the emitting loop pops and yields `node`")
    fr = w2.body[2]
    need(isinstance(fr, ast.For) and src(fr.target) == "parent" and src(fr.iter) == "parents(node)" and not fr.orelse, "for parent in parents(node)")
    body2 = Body("childless_nodes", "child_counts", ["parent"], False, True).stmts(fr.body)
    return body1, body2


def tr_backward_pass(tree):
    f = fun_def(tree, "backward_pass")
    need([a.arg for a in f.args.args] == ["g", "end_node"], "backward_pass signature")
    b = code(f.body)
    need(len(b) == 3 and src(b[0]) == "outgrads = {end_node: (g, False)}", "initial outgrads")
    lp = b[1]
    need(isinstance(lp, ast.For) and src(lp.target) == "node" and src(lp.iter) == "toposort(end_node)" and not lp.orelse and len(lp.body) == 3, "for node in toposort(end_node)")
    need(src(lp.body[0]) == "outgrad = outgrads.pop(node)", "outgrad = outgrads.pop(node)")
    need(src(lp.body[1]) == "ingrads = node.vjp(outgrad[0])", "ingrads = node.vjp(outgrad[0])")
    inner = lp.body[2]
    need(isinstance(inner, ast.For) and src(inner.target) == "(parent, ingrad)" and src(inner.iter) == "zip(node.parents, ingrads)" and not inner.orelse
         and len(inner.body) == 1, "for parent, ingrad in zip(node.parents, ingrads)")
    need(src(b[2]) == "return outgrad[0]", "return outgrad[0]")
    st = inner.body[0]
    need(isinstance(st, ast.Assign) and len(st.targets) == 1 and isinstance(st.targets[0], ast.Subscript) and src(st.targets[0].value) == "outgrads", "assignment to outgrads[...]")

    def ex(e):
        if isinstance(e, ast.Name) and e.id in ("parent", "ingrad", "node"):
            return e.id
        if isinstance(e, ast.Call) and src(e.func) == "add_outgrads" and len(e.args) == 2 and not e.keywords:
            return "(add_outgrads V vadd %s %s)" % (ex(e.args[0]), ex(e.args[1]))
        if isinstance(e, ast.Call) and src(e.func) == "outgrads.get" and len(e.args) == 1 and not e.keywords:
            return "(og_get V %s outgrads)" % ex(e.args[0])
        raise Mismatch("expression %r in backward_pass" % src(e))
    key = ex(st.targets[0].slice)
    need(key in ("parent", "node"), "key of the assignment")
    return "og_put V %s %s outgrads" % (key, ex(st.value))


def run(repo, gen):
    util = ast.parse(open(os.path.join(repo, "autograd", "util.py")).read())
    core = ast.parse(open(os.path.join(repo, "autograd", "core.py")).read())
    body1, body2 = tr_toposort(util)
    inner = tr_backward_pass(core)
    text = """(* GENERATED by harness/translators/topo.py from autograd/util.py (toposort) and autograd/core.py (backward_pass) - do not edit. *)
From Coq Require Import List Arith Bool.
Import ListNotations.
From AG Require Import Toposort Backward.

Section GenTopo.
  Variable parents : nat -> list nat.
  (* body of `while stack:` after `node = stack.pop()` *)
  Definition gen_count_body (node : nat) (stack : list nat) (child_counts : nat -> nat) : list nat * (nat -> nat) :=
    %s.
  (* body of `for parent in parents(node):` *)
  Definition gen_relax_body (parent : nat) (childless_nodes : list nat) (child_counts : nat -> nat) : list nat * (nat -> nat) :=
    %s.

  Fixpoint gen_count_loop (fuel : nat) (stack : list nat) (child_counts : nat -> nat) : option (nat -> nat) :=
    match fuel with
    | 0 => None
    | S f => match stack with                                   (* while stack: node = stack.pop() *)
             | [] => Some child_counts
             | node :: stack => let '(stack, child_counts) := gen_count_body node stack child_counts in gen_count_loop f stack child_counts
             end
    end.
  Fixpoint gen_relax (ps : list nat) (childless_nodes : list nat) (child_counts : nat -> nat) : list nat * (nat -> nat) :=
    match ps with
    | [] => (childless_nodes, child_counts)
    | parent :: ps => let '(childless_nodes, child_counts) := gen_relax_body parent childless_nodes child_counts in gen_relax ps childless_nodes child_counts
    end.
  Fixpoint gen_emit_loop (fuel : nat) (childless_nodes : list nat) (child_counts : nat -> nat) (acc : list nat) : option (list nat) :=
    match fuel with
    | 0 => None
    | S f => match childless_nodes with                         (* while childless_nodes: node = childless_nodes.pop(); yield node *)
             | [] => Some (rev acc)
             | node :: childless_nodes =>
               let '(childless_nodes, child_counts) := gen_relax (parents node) childless_nodes child_counts in
               gen_emit_loop f childless_nodes child_counts (node :: acc)
             end
    end.
  (* child_counts = {}; stack = [end_node]; ...; childless_nodes = [end_node]; ... *)
  Definition gen_toposort (end_node : nat) : option (list nat) :=
    match gen_count_loop (fuel1 parents end_node) [end_node] (fun _ => 0) with
    | None => None
    | Some child_counts => gen_emit_loop (fuel2 end_node) [end_node] child_counts []
    end.
End GenTopo.

Section GenBackward.
  Variable V : Type.
  Variable vadd : V -> V -> V.
  Variable parents : nat -> list nat.
  Variable vjpk : nat -> nat -> V -> V.
  (* body of `for parent, ingrad in zip(node.parents, ingrads):` *)
  Definition gen_bp_inner (node parent : nat) (ingrad : V) (outgrads : ogmap V) : ogmap V :=
    %s.
  Fixpoint gen_bp_for (node : nat) (ps : list nat) (gs : list V) (outgrads : ogmap V) : ogmap V :=
    match ps, gs with
    | parent :: ps, ingrad :: gs => gen_bp_for node ps gs (gen_bp_inner node parent ingrad outgrads)
    | _, _ => outgrads
    end.
  Fixpoint gen_bp_loop (order : list nat) (outgrads : ogmap V) (outgrad : option V) : option V :=
    match order with
    | [] => outgrad                                                        (* return outgrad[0] *)
    | node :: order =>
      match og_get V node outgrads with                                    (* outgrad = outgrads.pop(node) *)
      | None => None
      | Some g =>
        let outgrads := og_remove V node outgrads in
        let ingrads := vjp V parents vjpk node g in                        (* ingrads = node.vjp(outgrad[0]) *)
        gen_bp_loop order (gen_bp_for node (parents node) ingrads outgrads) (Some g)
      end
    end.
  (* outgrads = {end_node: (g, False)}; for node in toposort(end_node): ... *)
  Definition gen_backward_pass (g : V) (end_node : nat) : option (V * list nat) :=
    match gen_toposort parents end_node with
    | None => None
    | Some order => match gen_bp_loop order [(end_node, g)] None with None => None | Some r => Some (r, order) end
    end.
End GenBackward.
""" % (body1, body2, inner)
    path = os.path.join(gen, "GenTopo.v")
    try:
        if open(path).read() == text:
            return {"bodies": 3}
    except OSError:
        pass
    with open(path, "w") as f:
        f.write(text)
    return {"bodies": 3}
