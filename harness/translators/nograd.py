"""Translator for the list of functions registered as non-differentiable (C14): `nograd_functions` in numpy_vjps.py must be
one literal list of `anp.<name>` entries, used only by the loop that registers each entry as notrace for reverse mode and
(imported into numpy_jvps.py) by the loop that does the same for forward mode.  Output: coq/gen/GenNograd.v, the list of
names; Rules/NogradTie.v proves that every function whose local constancy is proved in Rules/PiecewiseConst.v is on that
list (so "no derivative flows through it" is what the source does, and by the theorems there it is the true derivative).
Fail-closed."""
import ast
import os

from .engine import Mismatch, need, src, code, fun_def


def uses(tree, name):
    return [n for n in ast.walk(tree) if isinstance(n, ast.Name) and n.id == name]


def reg_loop(stmts, node_type):
    for s in stmts:
        if isinstance(s, ast.For) and src(s.iter) == "nograd_functions":
            need(isinstance(s.target, ast.Name) and not s.orelse and len(code(s.body)) == 1
                 and src(code(s.body)[0]) == "register_notrace(%s, %s)" % (node_type, s.target.id),
                 "the loop over nograd_functions registers each entry as notrace for %s" % node_type)
            return True
    return False


def run(repo, gen):
    tv = ast.parse(open(os.path.join(repo, "autograd", "numpy", "numpy_vjps.py")).read())
    tj = ast.parse(open(os.path.join(repo, "autograd", "numpy", "numpy_jvps.py")).read())
    assigns = [s for s in tv.body if isinstance(s, ast.Assign) and any(src(t) == "nograd_functions" for t in s.targets)]
    need(len(assigns) == 1 and len(assigns[0].targets) == 1 and isinstance(assigns[0].value, ast.List), "nograd_functions is assigned one literal list")
    names = []
    for e in assigns[0].value.elts:
        need(isinstance(e, ast.Attribute) and isinstance(e.value, ast.Name) and e.value.id == "anp", "entry %r of nograd_functions is not anp.<name>" % src(e))
        names.append(e.attr)
    need(len(set(names)) == len(names), "an entry of nograd_functions occurs twice")
    need(reg_loop(tv.body, "VJPNode"), "numpy_vjps.py has no registration loop over nograd_functions")
    need(reg_loop(tj.body, "JVPNode"), "numpy_jvps.py has no registration loop over nograd_functions")
    # no other use of the list (a later .remove / slice / rebinding would make the literal list a lie)
    need(len(uses(tv, "nograd_functions")) == 2, "numpy_vjps.py uses nograd_functions %d times (assignment and loop expected)" % len(uses(tv, "nograd_functions")))
    need(len(uses(tj, "nograd_functions")) == 1, "numpy_jvps.py uses nograd_functions %d times (loop expected)" % len(uses(tj, "nograd_functions")))
    imp = [a for s in tj.body if isinstance(s, ast.ImportFrom) and (s.module or "").endswith("numpy_vjps") for a in s.names if a.name == "nograd_functions"]
    need(len(imp) == 1 and imp[0].asname is None, "numpy_jvps.py imports nograd_functions from numpy_vjps")
    # the wrapper consults the notrace table before anything else
    tt = ast.parse(open(os.path.join(repo, "autograd", "tracer.py")).read())
    reg = [s for s in tt.body if isinstance(s, ast.FunctionDef) and s.name == "register_notrace"]
    need(len(reg) == 1 and [src(s) for s in code(reg[0].body)] == ["notrace_primitives[trace_type].add(primitive_fun)"], "tracer.register_notrace adds to notrace_primitives[trace_type]")
    for n in names:
        need(n.isidentifier() and len(n) < 40, "name %r" % n)
    # ---- an output that does not depend on the argument: trace() hands back no end node, make_vjp / make_jvp answer with zeros ----
    tr = fun_def(tt, "trace")
    withs = [s_ for s_ in code(tr.body) if isinstance(s_, ast.With)]
    need(len(withs) == 1 and src(withs[0].items[0].context_expr) == "trace_stack.new_trace()", "trace(): one `with trace_stack.new_trace() as t` block")
    wb = code(withs[0].body)
    need(len(wb) == 3 and src(wb[0]) == "start_box = new_box(x, t, start_node)" and src(wb[1]) == "end_box = fun(start_box)" and isinstance(wb[2], ast.If),
         "trace(): box the argument, call the function, test the result")
    need(src(wb[2].test) == "isbox(end_box) and end_box._trace == start_box._trace", "trace(): the output depends on the input iff it is a box of this very trace; found %r" % src(wb[2].test))
    need([src(t) for t in code(wb[2].body)] == ["return (end_box._value, end_box._node)"], "trace(): dependent output: its value and its node")
    eb = code(wb[2].orelse)
    need(len(eb) == 2 and src(eb[0]).startswith("warnings.warn(") and src(eb[1]) == "return (end_box, None)", "trace(): independent output: the value itself and no node")
    core = ast.parse(open(os.path.join(repo, "autograd", "core.py")).read())

    def zeros_of(e, what):
        need(isinstance(e, ast.Call) and not e.args and isinstance(e.func, ast.Attribute) and e.func.attr == "zeros" and isinstance(e.func.value, ast.Call)
             and src(e.func.value.func) == "vspace" and len(e.func.value.args) == 1, "%s: expected vspace(<value>).zeros(), found %r" % (what, src(e)))
        x = src(e.func.value.args[0])
        need(x in ("x", "end_value"), "%s: zeros of vspace(%s) is neither the argument's nor the output's space" % (what, x))
        return "ZOfArgument" if x == "x" else "ZOfOutput"
    mv = code(fun_def(core, "make_vjp").body)
    need(len(mv) == 4 and src(mv[0]) == "start_node = VJPNode.new_root()" and src(mv[1]) == "end_value, end_node = trace(start_node, fun, x)"
         and isinstance(mv[2], ast.If) and src(mv[2].test) == "end_node is None" and src(mv[3]) == "return (vjp, end_value)", "make_vjp skeleton")
    v_none, v_dep = code(mv[2].body), code(mv[2].orelse)
    need(len(v_none) == 1 and isinstance(v_none[0], ast.FunctionDef) and v_none[0].name == "vjp" and len(code(v_none[0].body)) == 1 and isinstance(code(v_none[0].body)[0], ast.Return),
         "make_vjp: the pull-back of an independent output is one return")
    zv = zeros_of(code(v_none[0].body)[0].value, "make_vjp")
    need(len(v_dep) == 1 and isinstance(v_dep[0], ast.FunctionDef) and [src(t) for t in code(v_dep[0].body)] == ["return backward_pass(g, end_node)"], "make_vjp: dependent output: the backward pass")
    mj = code(fun_def(core, "make_jvp").body)
    need(len(mj) == 2 and isinstance(mj[0], ast.FunctionDef) and mj[0].name == "jvp" and src(mj[1]) == "return jvp", "make_jvp skeleton")
    jb = code(mj[0].body)
    need(len(jb) == 3 and src(jb[0]) == "start_node = JVPNode.new_root(g)" and src(jb[1]) == "end_value, end_node = trace(start_node, fun, x)"
         and isinstance(jb[2], ast.If) and src(jb[2].test) == "end_node is None", "make_jvp.jvp skeleton")
    j_none, j_dep = code(jb[2].body), code(jb[2].orelse)
    need(len(j_none) == 1 and isinstance(j_none[0], ast.Return) and isinstance(j_none[0].value, ast.Tuple) and len(j_none[0].value.elts) == 2
         and src(j_none[0].value.elts[0]) == "end_value", "make_jvp: independent output: (end_value, zeros)")
    zj = zeros_of(j_none[0].value.elts[1], "make_jvp")
    need([src(t) for t in j_dep] == ["return (end_value, end_node.g)"], "make_jvp: dependent output: the tangent of the end node")
    text = """(* GENERATED by harness/translators/nograd.py from autograd/numpy/numpy_vjps.py (nograd_functions) - do not edit. *)
From Coq Require Import List String ZArith Bool.
Import ListNotations.
From AG Require Import Extend.
Open Scope string_scope.

(* registered as notrace for VJPNode (numpy_vjps.py) and for JVPNode (numpy_jvps.py) *)
Definition gen_nograd : list string :=
  [%s].

(* tracer.trace: `if isbox(end_box) and end_box._trace == start_box._trace` - the output depends on the input *)
Definition gen_output_depends (is_box : bool) (trace_end trace_start : Z) : bool := is_box && (trace_end =? trace_start)%%Z.
(* otherwise: core.make_vjp answers vspace(<this>).zeros(), core.make_jvp answers (end_value, vspace(<this>).zeros()) *)
Definition gen_independent_vjp_zero : zero_space := %s.
Definition gen_independent_jvp_zero : zero_space := %s.
""" % (";\n   ".join('"%s"' % n for n in names), zv, zj)
    path = os.path.join(gen, "GenNograd.v")
    try:
        if open(path).read() == text:
            return {"n": len(names), "zeros": [zv, zj]}
    except OSError:
        pass
    with open(path, "w") as fh:
        fh.write(text)
    return {"n": len(names), "zeros": [zv, zj]}
