"""Implementation-side oracle for the rule properties (C01, C02, C04, C05, C09):
every exported differentiable primitive is called in a systematic space of call
configurations (ranks, broadcasting patterns, scalar-vs-array, axes incl.
negative and tuples, keepdims, optional kwargs, differentiated argnum, call
form) and, at a generic point, checked against its true Jacobian:

  reverse:  Re(sum(vjp(g) * d)) == Re(sum(g * J d))   for every real basis direction d
  forward:  jvp(v) == J v,  shape(jvp) == shape(output)
  adjoint:  Re(sum(g * jvp(v))) == Re(sum(vjp(g) * v))
  space:    shape / kind / dtype of vjp(g) == those of the argument

J d is exact (f(x+d) - f(x) on integer data) for primitives that are affine in the
differentiated argument, and a Richardson-extrapolated central difference
otherwise.  A call that raises in autograd but not in NumPy is allowed
('or the call raises') and only counted."""
import itertools
import json
import random
import sys
import warnings

import numpy as onp
import autograd.numpy as anp
from autograd import make_vjp, make_jvp
from autograd.tracer import isbox

warnings.simplefilter("ignore")
onp.seterr(all="ignore")


# ------------------------------------------------------------------ data ----
def iarr(rng, shape, lo=-3, hi=3, cplx=False, nonzero=False):
    n = int(onp.prod(shape)) if shape else 1

    def one():
        while True:
            v = rng.randint(lo, hi)
            if not nonzero or v != 0:
                return v
    if cplx:
        a = onp.array([complex(one(), one()) for _ in range(n)])
    else:
        a = onp.array([float(one()) for _ in range(n)])
    return a.reshape(shape)


def distinct(rng, shape, scale=1.0, offset=0.0):
    """generic real point: all entries distinct, away from 0 and from each other"""
    n = int(onp.prod(shape)) if shape else 1
    vals = [offset + scale * (0.37 + 0.61 * i) * (1 if (i % 2 == 0) else -1) for i in range(n)]
    rng.shuffle(vals)
    return onp.array(vals).reshape(shape)


def positive(rng, shape, lo=0.4, hi=2.2):
    n = int(onp.prod(shape)) if shape else 1
    return onp.array([lo + (hi - lo) * (i + 0.5 + 0.3 * rng.random()) / n for i in range(n)]).reshape(shape)


def grid_a(rng, shape):
    """multiples of 1/2 (so that grid_a and grid_b values are at least 1/4 apart: no near-ties)"""
    n = int(onp.prod(shape)) if shape else 1
    return onp.array([0.5 * rng.randint(-5, 5) for _ in range(n)]).reshape(shape)


def grid_b(rng, shape):
    n = int(onp.prod(shape)) if shape else 1
    return onp.array([0.5 * rng.randint(-5, 5) + 0.25 for _ in range(n)]).reshape(shape)


def half_ints(rng, shape):
    n = int(onp.prod(shape)) if shape else 1
    return onp.array([rng.randint(2, 7) + 0.5 for _ in range(n)]).reshape(shape)


def one_or_two(rng, shape):
    n = int(onp.prod(shape)) if shape else 1
    return onp.array([float(rng.choice([1, 2])) for _ in range(n)]).reshape(shape)


def unit_interval(rng, shape):
    n = int(onp.prod(shape)) if shape else 1
    return onp.array([-0.8 + 1.6 * (i + 0.3 + 0.4 * rng.random()) / n for i in range(n)]).reshape(shape)


SHAPES = [(), (1,), (3,), (2, 3), (1, 3), (3, 1), (2, 1, 2), (1, 2, 1, 2)]
BPAIRS = [((), ()), ((), (3,)), ((3,), ()), ((3,), (3,)), ((3,), (2, 3)), ((2, 3), (3,)), ((2, 1), (1, 3)),
          ((1,), (2, 2)), ((2, 2), (1,)), ((1, 3), (2, 1, 3)), ((2, 3), (2, 3)), ((1, 1), (2, 3)),
          ((2, 1, 2), (3, 1)), ((1, 2, 1, 2), (2, 1)), ("py", (2, 3)), ((2, 3), "py"), ("py", "py")]


# --------------------------------------------------------------- oracle ----
def directions(x):
    a = onp.asarray(x)
    for idx in onp.ndindex(*a.shape):
        d = onp.zeros(a.shape, dtype=a.dtype if onp.iscomplexobj(a) else float)
        d[idx] = 1.0
        yield d
        if onp.iscomplexobj(a):
            d2 = onp.zeros(a.shape, dtype=a.dtype)
            d2[idx] = 1.0j
            yield d2


def as_arg(x, d):
    """x + d keeping Python scalars Python scalars"""
    if isinstance(x, (float, complex)):
        return type(x)(x + d.reshape(())[()]) if not onp.iscomplexobj(d) or isinstance(x, complex) else x + complex(d)
    r = x + d
    if isinstance(x, onp.ndarray) and x.ndim >= 2 and x.flags.f_contiguous and not x.flags.c_contiguous:
        r = onp.asfortranarray(r)          # the displaced point is laid out as the point is (order="A" reads the layout)
    return r


def jd(f, x, d, exact, step=1.0):
    if exact:
        # (step is a power of two and the data dyadic, so the scaling is exact too)
        return (onp.asarray(f(as_arg(x, step * d))) - onp.asarray(f(x))) / step
    h = 1e-3

    def cd(hh):
        return (onp.asarray(f(as_arg(x, hh * d))) - onp.asarray(f(as_arg(x, -hh * d)))) / (2 * hh)
    return (4 * cd(h / 2) - cd(h)) / 3


def rdot(a, b):
    return float(onp.real(onp.sum(onp.asarray(a) * onp.asarray(b))))


def close(a, b, exact):
    if exact:
        return a == b
    return abs(a - b) <= 2e-6 * (1.0 + abs(a) + abs(b))


def kind(a):
    return "complex" if onp.iscomplexobj(a) else "real"


class Case:
    def __init__(self, prim, tag, f, args, diff, exact, note=None, modes=("rev", "fwd"), step=1.0):
        self.prim, self.tag, self.f, self.args, self.diff, self.exact = prim, tag, f, list(args), diff, exact
        self.modes = modes
        self.step = step          # size of the exact oracle's displacement (piecewise-linear functions close to a kink)
        self.flat_im = False       # complex tangent / cotangent with zero imaginary parts (a real direction in a complex space)
        self.pairing_only = False  # a point ON a kink: no true Jacobian to compare with, but the two modes must still pair (C04)


def run_case(c, rng, props):
    """returns (problems, stats)"""
    problems = []
    stats = {"raised": 0}
    if "C10" in props:
        # nothing the caller owns is written: run on read-only copies and compare afterwards
        before = [onp.array(a, copy=True) if isinstance(a, onp.ndarray) else a for a in c.args]
        ro = []
        for a in c.args:
            if isinstance(a, onp.ndarray):
                b = onp.array(a, copy=True)
                b.setflags(write=False)
                ro.append(b)
            else:
                ro.append(a)
        po, fi = c.pairing_only, c.flat_im
        c = Case(c.prim, c.tag, c.f, ro, c.diff, c.exact, modes=c.modes, step=c.step)
        c.pairing_only, c.flat_im = po, fi
    for k in c.diff:
        x = c.args[k]

        def fk(z, k=k):
            a = list(c.args)
            a[k] = z
            return c.f(anp, *a)

        def fk_np(z, k=k):
            a = list(c.args)
            a[k] = z
            return c.f(onp, *a)
        try:
            y = fk_np(x)
        except Exception:
            continue                       # NumPy itself rejects this call: not a configuration
        yv = onp.asarray(y)
        cplx_out = onp.iscomplexobj(yv)
        g = iarr(rng, yv.shape, 1, 3, cplx=cplx_out)
        xa = onp.asarray(x)
        v = iarr(rng, xa.shape, 1, 3, cplx=onp.iscomplexobj(xa))
        if c.flat_im:
            g = g.real + 0j if onp.iscomplexobj(g) else g
            v = v.real + 0j if onp.iscomplexobj(v) else v
        vj = jv = None
        if "rev" in c.modes:
            try:
                vjp, val = make_vjp(fk)(x)
                gg = g.reshape(yv.shape) if yv.shape else (g.reshape(())[()])
                vj = vjp(gg)
                # the pull-back is a function of its argument only: a second call gives the same value
                vj2 = vjp(gg)
                if not (onp.shape(vj2) == onp.shape(vj) and onp.array_equal(onp.asarray(vj2), onp.asarray(vj), equal_nan=True)):
                    problems.append(("C01", k, "calling the same VJP function twice gives two different results"))
                    problems.append(("C10", k, "calling the same VJP function twice gives two different results"))
            except Exception as ex:
                stats["raised"] += 1
                vj = None
                if "C10" in props and "read-only" in str(ex):
                    problems.append(("C10", k, "reverse mode wrote into an array the caller owns: %s" % str(ex)[:80]))
                if not isinstance(ex, (NotImplementedError, TypeError, ValueError, AssertionError, IndexError,
                                       KeyError, NameError, AttributeError)):
                    problems.append(("C01", k, "reverse mode raised an unexpected %s: %s" % (type(ex).__name__, str(ex)[:80])))
            if vj is not None:
                if isbox(vj):
                    problems.append(("C05", k, "VJP result is a tracer object"))
                vja = onp.asarray(vj)
                if "C05" in props:
                    if vja.shape != xa.shape:
                        problems.append(("C05", k, "VJP shape %s != argument shape %s" % (vja.shape, xa.shape)))
                    elif kind(vja) != kind(xa):
                        problems.append(("C05", k, "VJP is %s but the argument is %s" % (kind(vja), kind(xa))))
                    elif xa.dtype == onp.float64 and vja.dtype != onp.float64:
                        problems.append(("C05", k, "VJP dtype %s for a float64 argument" % vja.dtype))
                    elif xa.dtype == onp.float64 and onp.asarray(gg).dtype == onp.float64 and yv.dtype in (onp.float32, onp.float16, onp.complex64):
                        # the result has a non-default precision: its own cotangents (what grad / jacobian seed) have that dtype
                        try:
                            vjn = onp.asarray(vjp(onp.asarray(gg).astype(yv.dtype)[()] if onp.ndim(gg) == 0 else onp.asarray(gg).astype(yv.dtype)))
                            if vjn.shape == xa.shape and kind(vjn) == kind(xa) and vjn.dtype != onp.float64:
                                problems.append(("C05", k, "VJP dtype %s for a float64 argument (cotangent in the result's own dtype %s)" % (vjn.dtype, yv.dtype)))
                        except Exception:
                            pass
                    elif isinstance(x, float) and vja.shape != ():
                        problems.append(("C05", k, "VJP of a Python scalar has shape %s" % (vja.shape,)))
                if "C09" in props and vja.shape == xa.shape and kind(vja) != kind(xa) and (onp.iscomplexobj(xa) or cplx_out):
                    problems.append(("C09", k, "the gradient of a %s argument is %s: not conj(J_R^T conj(g)) in the argument's space" % (kind(xa), kind(vja))))
                if vja.shape != xa.shape and "C04" in props:
                    problems.append(("C04", k, "VJP has shape %s but the JVP's argument space has shape %s: it cannot be the adjoint" % (vja.shape, xa.shape)))
                if vja.shape != xa.shape and "C01" in props:
                    problems.append(("C01", k, "VJP has shape %s, J^T g has the argument's shape %s: a wrong cotangent, silently" % (vja.shape, xa.shape)))
                if vja.shape == xa.shape and ("C01" in props or "C09" in props):
                    if not onp.all(onp.isfinite(vja)):
                        problems.append(("C01", k, "VJP not finite at a regular point"))
                    else:
                        for d in directions(xa):
                            lhs, rhs = rdot(vja, d), rdot(g, jd(fk_np, x, d, c.exact, c.step))
                            if not close(lhs, rhs, c.exact):
                                # a real argument with a complex result belongs to both properties
                                for p in (["C09"] if onp.iscomplexobj(xa) else (["C01", "C09"] if cplx_out else ["C01"])):
                                    problems.append((p, k, "VJP differs from J^T g: got %r, true %r (direction %s)" % (
                                        lhs, rhs, onp.argwhere(d != 0).tolist())))
                                break
        if "fwd" in c.modes:
            try:
                vv = v.reshape(xa.shape) if xa.shape else (v.reshape(())[()])
                val, jv = make_jvp(fk)(x)(vv)
                val2, jv2 = make_jvp(fk)(x)(vv)
                if not (onp.shape(jv2) == onp.shape(jv) and onp.array_equal(onp.asarray(jv2), onp.asarray(jv), equal_nan=True)):
                    problems.append(("C02", k, "evaluating the same JVP twice gives two different results"))
                    problems.append(("C10", k, "evaluating the same JVP twice gives two different results"))
            except Exception as ex:
                stats["raised"] += 1
                jv = None
                if "C10" in props and "read-only" in str(ex):
                    problems.append(("C10", k, "forward mode wrote into an array the caller owns: %s" % str(ex)[:80]))
                if not isinstance(ex, (NotImplementedError, TypeError, ValueError, AssertionError, IndexError,
                                       KeyError, NameError, AttributeError)):
                    problems.append(("C02", k, "forward mode raised an unexpected %s" % type(ex).__name__))
            if jv is not None:
                jva = onp.asarray(jv)
                if "C05" in props and jva.shape == yv.shape and kind(jva) != kind(yv):
                    problems.append(("C05", k, "JVP is %s but the function's output is %s" % (kind(jva), kind(yv))))
                if jva.shape != yv.shape:
                    problems.append(("C02", k, "JVP shape %s != output shape %s" % (jva.shape, yv.shape)))
                else:
                    true = jd(fk_np, x, v.reshape(xa.shape), c.exact, c.step)
                    ok = onp.all(jva == true) if c.exact else onp.all(onp.abs(jva - true) <= 2e-6 * (1 + onp.abs(true)))
                    if not ok:
                        for p in (["C09"] if onp.iscomplexobj(xa) else (["C02", "C09"] if cplx_out else ["C02"])):
                            problems.append((p, k, "JVP differs from J v: got %s, true %s" % (
                                onp.round(jva.ravel()[:4], 6).tolist(), onp.round(onp.asarray(true).ravel()[:4], 6).tolist())))
                    if vj is not None and onp.asarray(vj).shape == xa.shape and "C04" in props:
                        a, b = rdot(g, jva), rdot(onp.asarray(vj), v.reshape(xa.shape))
                        # both sides are computed analytically (no finite difference): they agree to rounding
                        mass = float(onp.sum(onp.abs(onp.asarray(g) * jva)) + onp.sum(onp.abs(onp.asarray(vj) * v.reshape(xa.shape))))
                        if not (a == b if c.exact else abs(a - b) <= 1e-10 * (1.0 + mass)):
                            problems.append(("C04", k, "<g, jvp v> = %r but <vjp g, v> = %r" % (a, b)))
    if c.pairing_only:
        problems = [q for q in problems if q[0] in ("C04", "C05", "C10", "harness")]
    return problems, stats


# ---------------------------------------------------------------- table ----
def cases(rng, tier):
    out = []
    big = tier == "thorough"

    def add(prim, tag, f, args, diff, exact, modes=("rev", "fwd"), step=1.0):
        out.append(Case(prim, tag, f, args, diff, exact, modes=modes, step=step))

    def pick(lst, n):
        return lst if big or len(lst) <= n else rng.sample(lst, n)

    # ---- F1: unary elementwise ----
    unary = {
        "negative": distinct, "reciprocal": distinct, "exp": unit_interval, "exp2": unit_interval, "expm1": unit_interval,
        "log": positive, "log2": positive, "log10": positive, "log1p": positive, "sin": distinct, "cos": distinct,
        "tan": unit_interval, "arcsin": unit_interval, "arccos": unit_interval, "arctan": distinct, "sinh": unit_interval,
        "cosh": unit_interval, "tanh": unit_interval, "arcsinh": distinct, "arccosh": lambda r, s: positive(r, s) + 1.0,
        "arctanh": unit_interval, "rad2deg": distinct, "degrees": distinct, "deg2rad": distinct, "radians": distinct,
        "square": distinct, "sqrt": positive, "sinc": distinct, "abs": distinct, "fabs": distinct, "absolute": distinct,
        "nan_to_num": distinct, "real": distinct, "imag": distinct, "conj": distinct, "conjugate": distinct,
        "angle": positive, "real_if_close": distinct,
    }
    for name, gen in unary.items():
        for sh in pick(SHAPES, 3):
            add(name, "shape=%s" % (sh,), (lambda m, x, name=name: getattr(m, name)(x)), [gen(rng, sh)], [0], False)
        add(name, "python-scalar", (lambda m, x, name=name: getattr(m, name)(x)), [float(gen(rng, ()))], [0], False)
    # ---- F2: binary ufuncs with broadcasting; operators ----
    binary = {
        "add": (distinct, distinct, True), "subtract": (distinct, distinct, True), "multiply": (distinct, distinct, True),
        "divide": (distinct, distinct, False), "true_divide": (distinct, distinct, False),
        "maximum": (grid_a, grid_b, False), "minimum": (grid_a, grid_b, False),
        "fmax": (grid_a, grid_b, False), "fmin": (grid_a, grid_b, False),
        "logaddexp": (unit_interval, unit_interval, False), "logaddexp2": (unit_interval, unit_interval, False),
        "mod": (half_ints, one_or_two, False), "remainder": (half_ints, one_or_two, False),
        "power": (positive, distinct, False), "arctan2": (distinct, positive, False), "hypot": (distinct, distinct, False),
    }
    for name, (gx, gy, exact) in binary.items():
        for (s1, s2) in pick(BPAIRS, 6):
            x = float(gx(rng, ())) if s1 == "py" else gx(rng, s1)
            y = float(gy(rng, ())) if s2 == "py" else gy(rng, s2)
            if exact:
                x = float(rng.randint(1, 3)) if s1 == "py" else iarr(rng, s1)
                y = float(rng.randint(1, 3)) if s2 == "py" else iarr(rng, s2)
            if s1 == "py" and s2 == "py":
                continue
            add(name, "shapes=%s,%s" % (s1, s2), (lambda m, a, b, name=name: getattr(m, name)(a, b)), [x, y], [0, 1], exact)
    ops = {"op+": lambda m, a, b: a + b, "op-": lambda m, a, b: a - b, "op*": lambda m, a, b: a * b,
           "op/": lambda m, a, b: a / b, "op**": lambda m, a, b: a ** b, "op-neg": lambda m, a, b: -a + 0 * b,
           "op%": lambda m, a, b: a % b}
    for name, f in ops.items():
        for (s1, s2) in pick([p for p in BPAIRS if p[0] != "py" or p[1] != "py"], 4):
            pos = name in ("op**", "op/")
            x = (float(rng.randint(1, 3)) + 0.5) if s1 == "py" else (positive(rng, s1, 2.1, 4.3) if pos else iarr(rng, s1))
            y = (float(rng.randint(1, 2)) + 0.25) if s2 == "py" else (positive(rng, s2, 0.6, 1.4) if pos else iarr(rng, s2))
            if name == "op%":
                x = (rng.randint(2, 7) + 0.5) if s1 == "py" else half_ints(rng, s1)
                y = float(rng.choice([1, 2])) if s2 == "py" else one_or_two(rng, s2)
            diff = [k for k, s in enumerate((s1, s2)) if s != "py"]
            add(name, "shapes=%s,%s" % (s1, s2), f, [x, y], diff, name in ("op+", "op-", "op*", "op-neg"))
    # ---- F3: reductions ----
    def axes_of(nd):
        ax = [None] + list(range(-nd, nd))
        if nd >= 2:
            ax += [(0, 1), (-1, 0), tuple(range(nd))]
        if nd >= 3:
            ax += [(0, 2), (-1, -3)]
        return ax
    for name, exact, gen in (("sum", True, None), ("mean", False, distinct), ("prod", False, positive), ("var", False, distinct),
                             ("std", False, distinct), ("max", False, distinct), ("min", False, distinct),
                             ("amax", False, distinct), ("amin", False, distinct)):
        for sh in pick([(3,), (2, 3), (3, 1), (2, 1, 2), (2, 2, 1, 2), ()], 4) + [(1,), (1, 1)]:
            for ax in pick(axes_of(len(sh)), 5):
                for kd in (False, True):
                    x = iarr(rng, sh) if exact else gen(rng, sh)
                    if name in ("var", "std") and (onp.size(x) if ax is None else int(onp.prod([sh[a] for a in (ax if isinstance(ax, tuple) else (ax,))]))) <= 1:
                        continue
                    tag = "axis=%s keepdims=%s shape=%s%s" % (ax, kd, sh, " axis<0" if (isinstance(ax, int) and ax < 0) else "")
                    add(name, tag, (lambda m, z, name=name, ax=ax, kd=kd: getattr(m, name)(z, axis=ax, keepdims=kd)), [x], [0], exact)
            if name in ("var", "std") and sh not in ((), (1,), (1, 1)):
                add(name, "ddof=1 shape=%s" % (sh,), (lambda m, z, name=name: getattr(m, name)(z, ddof=1)), [gen(rng, sh) if gen else iarr(rng, sh)], [0], False)
    for sh in pick([(3,), (2, 3), (2, 1, 2)], 3):
        for ax in [None] + list(range(-len(sh), len(sh))):
            add("cumsum", "axis=%s shape=%s" % (ax, sh), (lambda m, z, ax=ax: m.cumsum(z, axis=ax)), [iarr(rng, sh)], [0], True)
    # methods
    for meth, exact in (("sum", True), ("mean", False), ("T", True), ("ravel", True), ("flatten", True), ("squeeze", True),
                        ("max", False), ("min", False), ("prod", False), ("cumsum", True), ("conj", True), ("transpose", True)):
        x = iarr(rng, (2, 1, 3)) if exact else distinct(rng, (2, 1, 3))
        if meth == "T":
            add("method.T", "shape=(2,1,3)", (lambda m, z: z.T), [x], [0], True)
        else:
            add("method." + meth, "shape=(2,1,3)", (lambda m, z, meth=meth: getattr(z, meth)()), [x], [0], exact)
    # ---- F4: gathers and other linear shape operations (exact) ----
    A23, A234, V4, A33 = (2, 3), (2, 3, 2), (4,), (3, 3)
    def lin(prim, tag, f, args, diff=(0,), modes=("rev", "fwd")):
        add(prim, tag, f, args, list(diff), True, modes=modes)
    for sh, new in (((2, 3), (3, 2)), ((2, 3), (-1,)), ((2, 3), (6, 1)), ((2, 3, 2), (4, -1)), ((), (1, 1)), ((1,), ())):
        lin("reshape", "%s->%s" % (sh, new), (lambda m, z, new=new: m.reshape(z, new)), [iarr(rng, sh)])
        lin("reshape-method", "%s->%s" % (sh, new), (lambda m, z, new=new: z.reshape(new)), [iarr(rng, sh)])
    lin("reshape-method", "varargs", (lambda m, z: z.reshape(3, 2)), [iarr(rng, A23)])
    for sh in ((2, 3), (2, 1, 2), ()):
        lin("ravel", "shape=%s" % (sh,), (lambda m, z: m.ravel(z)), [iarr(rng, sh)])
    for sh in ((3,), (2, 3)):
        for ax in range(-len(sh) - 1, len(sh) + 1):
            lin("expand_dims", "axis=%d shape=%s" % (ax, sh), (lambda m, z, ax=ax: m.expand_dims(z, ax)), [iarr(rng, sh)])
    for sh, ax in (((1, 3), None), ((1, 3), 0), ((2, 1, 1), None), ((2, 1, 1), -1), ((2, 1, 1), (1, 2)), ((1,), 0)):
        lin("squeeze", "axis=%s shape=%s" % (ax, sh), (lambda m, z, ax=ax: m.squeeze(z, axis=ax)), [iarr(rng, sh)])
    for sh in ((2, 3), (2, 3, 2)):
        perms = [None] + list(itertools.permutations(range(len(sh))))
        perms += [tuple(p - len(sh) for p in q) for q in list(itertools.permutations(range(len(sh))))[:3]]
        perms += [(-1, 0)] if len(sh) == 2 else [(-1, 0, 1), (1, -1, 0)]
        for p in pick(perms, 6):
            neg = p is not None and any(a < 0 for a in p)
            lin("transpose", "axes=%s shape=%s%s" % (p, sh, " negative-axes" if neg else ""),
                (lambda m, z, p=p: m.transpose(z, p)), [iarr(rng, sh)])
    for sh in ((2, 3), (2, 3, 2)):
        for a1, a2 in pick(list(itertools.product(range(-len(sh), len(sh)), repeat=2)), 5):
            lin("swapaxes", "axes=%d,%d shape=%s" % (a1, a2, sh), (lambda m, z, a1=a1, a2=a2: m.swapaxes(z, a1, a2)), [iarr(rng, sh)])
            lin("moveaxis", "axes=%d,%d shape=%s" % (a1, a2, sh), (lambda m, z, a1=a1, a2=a2: m.moveaxis(z, a1, a2)), [iarr(rng, sh)])
        for a1, a2 in pick(list(itertools.product(range(0, len(sh)), range(0, len(sh) + 1))), 4):
            lin("rollaxis", "axis=%d start=%d shape=%s" % (a1, a2, sh), (lambda m, z, a1=a1, a2=a2: m.rollaxis(z, a1, a2)), [iarr(rng, sh)])
    lin("rollaxis", "axis=-1 (must raise or be exact)", (lambda m, z: m.rollaxis(z, -1)), [iarr(rng, A234)])
    for name in ("flipud", "fliplr"):
        lin(name, "shape=(2,3)", (lambda m, z, name=name: getattr(m, name)(z)), [iarr(rng, A23)])
        lin(name, "shape=(2,3,2)", (lambda m, z, name=name: getattr(m, name)(z)), [iarr(rng, A234)])
    for k in (-1, 0, 1, 2, 3):
        lin("rot90", "k=%d" % k, (lambda m, z, k=k: m.rot90(z, k)), [iarr(rng, A23)])
    for shift, ax in ((1, None), (-2, None), (1, 0), (2, -1), (-1, 1), ((1, 2), (0, 1))):
        lin("roll", "shift=%s axis=%s" % (shift, ax), (lambda m, z, shift=shift, ax=ax: m.roll(z, shift, axis=ax)), [iarr(rng, A23)])
    for k in (-2, -1, 0, 1, 2):
        lin("diag", "1-D k=%d" % k, (lambda m, z, k=k: m.diag(z, k)), [iarr(rng, (3,))])
        lin("diag", "2-D square k=%d" % k, (lambda m, z, k=k: m.diag(z, k)), [iarr(rng, A33)])
        lin("diag", "2-D non-square k=%d" % k, (lambda m, z, k=k: m.diag(z, k)), [iarr(rng, A23)])
        lin("triu", "k=%d" % k, (lambda m, z, k=k: m.triu(z, k)), [iarr(rng, A23)])
        lin("tril", "k=%d" % k, (lambda m, z, k=k: m.tril(z, k)), [iarr(rng, (3, 2))])
        lin("trace", "offset=%d" % k, (lambda m, z, k=k: m.trace(z, k)), [iarr(rng, A23)])
        lin("diagonal", "offset=%d" % k, (lambda m, z, k=k: m.diagonal(z, k)), [iarr(rng, A23)])
    lin("triu", "3-D", (lambda m, z: m.triu(z)), [iarr(rng, A234)])
    lin("trace", "3-D", (lambda m, z: m.trace(z)), [iarr(rng, A234)])
    lin("diagonal", "3-D axes=(1,2)", (lambda m, z: m.diagonal(z, 0, 1, 2)), [iarr(rng, A234)])
    lin("diagonal", "3-D axes=(-1,0) offset=1", (lambda m, z: m.diagonal(z, 1, -1, 0)), [iarr(rng, A234)])
    lin("make_diagonal", "2-D->3-D", (lambda m, z: anp.make_diagonal(z, 0, 1, 2) if m is anp else _np_make_diagonal(z)), [iarr(rng, (2, 2))])
    for reps, ax in ((2, None), (2, 0), (3, 1), (2, -1), (2, -2), (1, 0), (1, -1)):
        for sh in ((3,), (2, 3), (2, 1, 2)):
            if ax is not None and not (-len(sh) <= ax < len(sh)):
                continue
            tag = "repeats=%d axis=%s shape=%s%s" % (reps, ax, sh, " axis<0" if (ax is not None and ax < 0) else "")
            lin("repeat", tag, (lambda m, z, reps=reps, ax=ax: m.repeat(z, reps, axis=ax)), [iarr(rng, sh)])
    for reps in (2, (2,), (1, 2), (2, 1), (2, 2), (2, 1, 2), (1, 1)):
        for sh in ((3,), (2, 3), ()):
            nreps = 1 if isinstance(reps, int) else len(reps)
            tag = "reps=%s shape=%s%s" % (reps, sh, " len(reps)<ndim" if nreps < len(sh) else "")
            lin("tile", tag, (lambda m, z, reps=reps: m.tile(z, reps)), [iarr(rng, sh)])
    for sh, new in (((3,), (2, 3)), ((1, 3), (2, 3)), ((2, 1), (2, 3)), ((1, 1), (2, 3)), ((), (2,)), ((2, 3), (2, 3))):
        tag = "%s->%s%s" % (sh, new, " extra-leading-dims" if len(sh) < len(new) else "")
        lin("broadcast_to", tag, (lambda m, z, new=new: m.broadcast_to(z, new)), [iarr(rng, sh)])
    for ax in (0, 1, -1, -2):
        lin("concatenate", "axis=%d" % ax, (lambda m, a, b, ax=ax: m.concatenate([a, b, a], axis=ax)), [iarr(rng, A23), iarr(rng, A23)], (0, 1))
        lin("stack", "axis=%d" % ax, (lambda m, a, b, ax=ax: m.stack([a, b], axis=ax)), [iarr(rng, A23), iarr(rng, A23)], (0, 1))
    for name in ("vstack", "hstack", "column_stack", "row_stack"):
        if not hasattr(onp, name):
            continue
        lin(name, "2-D", (lambda m, a, b, name=name: getattr(m, name)([a, b])), [iarr(rng, A23), iarr(rng, A23)], (0, 1))
        lin(name, "1-D", (lambda m, a, b, name=name: getattr(m, name)((a, b))), [iarr(rng, (3,)), iarr(rng, (3,))], (0, 1))
    lin("append", "axis=None", (lambda m, a, b: m.append(a, b)), [iarr(rng, A23), iarr(rng, (2,))], (0, 1))
    lin("append", "axis=0", (lambda m, a, b: m.append(a, b, axis=0)), [iarr(rng, A23), iarr(rng, (1, 3))], (0, 1))
    for name, sh, arg in (("split", (4, 2), 2), ("split", (4, 2), [1, 3]), ("array_split", (5,), 2), ("vsplit", (4, 2), 2),
                          ("hsplit", (2, 4), 2), ("dsplit", (1, 2, 4), 2)):
        lin(name, "arg=%s" % (arg,), (lambda m, z, name=name, arg=arg: m.concatenate([p * (i + 1) for i, p in enumerate(getattr(m, name)(z, arg))], axis=None) if False else
                                      m.concatenate([m.ravel(p) * (i + 1) for i, p in enumerate(getattr(m, name)(z, arg))])), [iarr(rng, sh)])
    lin("split", "axis=1", (lambda m, z: m.concatenate([m.ravel(p) * (i + 1) for i, p in enumerate(m.split(z, 2, axis=1))])), [iarr(rng, (2, 4))])
    lin("split", "axis=-1", (lambda m, z: m.concatenate([m.ravel(p) * (i + 1) for i, p in enumerate(m.split(z, 2, axis=-1))])), [iarr(rng, (2, 4))])
    for name in ("atleast_1d", "atleast_2d", "atleast_3d"):
        for sh in ((), (3,), (2, 3)):
            lin(name, "shape=%s" % (sh,), (lambda m, z, name=name: getattr(m, name)(z)), [iarr(rng, sh)])
    for width in (1, (1, 2), ((1, 0), (0, 2)), ((1, 1),)):
        lin("pad", "width=%s" % (width,), (lambda m, z, width=width: m.pad(z, width, mode="constant")), [iarr(rng, A23)])
    for cv in (2.5, (1.5, -2.0), ((1.0, 2.0), (3.0, -1.0))):
        lin("pad", "constant_values=%s" % (cv,), (lambda m, z, cv=cv: m.pad(z, ((1, 2), (2, 1)), mode="constant", constant_values=cv)), [iarr(rng, A23)])
    lin("pad", "default mode positional width", (lambda m, z: m.pad(z, 2)), [iarr(rng, A23)], modes=("fwd",))
    for mode, kw in (("edge", {}), ("reflect", {}), ("reflect", {"reflect_type": "odd"}), ("symmetric", {}), ("wrap", {}), ("mean", {}),
                     ("mean", {"stat_length": 2}), ("linear_ramp", {}), ("linear_ramp", {"end_values": 3.0})):
        # mean / linear_ramp divide: not exact in floating point, so the numeric oracle
        add("pad", "mode=%s %s" % (mode, kw), (lambda m, z, mode=mode, kw=kw: m.pad(z, ((1, 2), (2, 1)), mode, **kw)), [iarr(rng, (3, 4))], [0],
            mode not in ("mean", "linear_ramp"), modes=("fwd",))
    cond = onp.array([[True, False, True], [False, False, True]])
    lin("where", "arrays", (lambda m, a, b: m.where(cond, a, b)), [iarr(rng, A23), iarr(rng, A23)], (0, 1))
    lin("where", "broadcast-branch", (lambda m, a, b: m.where(cond, a, b)), [iarr(rng, (3,)), iarr(rng, (2, 1))], (0, 1))
    lin("where", "scalar-branch", (lambda m, a, b: m.where(cond, a, b)), [2.0, iarr(rng, A23)], (0, 1))
    # ---- regular points CLOSE to a kink: the runner-up is within 2^-20 (relative) of the extremum / the bound, which
    #      is not a tie.  Piecewise linear, so the exact oracle applies with a displacement far below the gap. ----
    tiny, eps = 2.0 ** -40, 2.0 ** -20
    near = onp.array([[0.25, 1.0, 1.0 + eps], [-2.0 - eps, 0.5, -2.0]])
    huge = onp.array([[2.0 ** 30, 2.0 ** 30 + 2.0 ** 10, 5.0], [7.0, -2.0 ** 30, -2.0 ** 30 - 2.0 ** 9]])
    for rname in ("max", "min", "amax", "amin"):
        for axn, kw in (("all", {}), ("axis=1", {"axis": 1}), ("axis=0 keepdims", {"axis": 0, "keepdims": True}), ("axis=(0,1)", {"axis": (0, 1)})):
            add(rname, "near-tie %s" % axn, (lambda m, z, rname=rname, kw=kw: getattr(m, rname)(z, **kw)), [near], [0], True, step=tiny)
            add(rname, "near-tie at 2^30 %s" % axn, (lambda m, z, rname=rname, kw=kw: getattr(m, rname)(z, **kw)), [huge], [0], True, step=2.0 ** -12)
    for bname in ("maximum", "minimum", "fmax", "fmin"):
        add(bname, "near-tie operands", (lambda m, a, b, bname=bname: getattr(m, bname)(a, b)),
            [near, near + eps * onp.array([[1.0, -1.0, 1.0], [-1.0, 1.0, -1.0]])], [0, 1], True, step=tiny)
        add(bname, "near-tie with scalar", (lambda m, a, bname=bname: getattr(m, bname)(a, 1.0 + eps / 2)), [near], [0], True, step=tiny)
    add("clip", "entries within 2^-20 of the bounds", (lambda m, z: m.clip(z, -2.0 - eps / 2, 1.0 + eps / 2)), [near], [0], True, step=tiny)
    add("abs", "entries within 2^-20 of 0", (lambda m, z: m.abs(z)), [onp.array([eps, -eps, 1.0, -2.0])], [0], True, step=tiny)
    add("sort", "near-ties", (lambda m, z: m.sort(z, axis=1)), [near], [0], True, step=tiny)
    add("where", "threshold 2^-20 away", (lambda m, z: m.where(z > 1.0 + eps / 2, z, 2.0 * z)), [near], [0], True, step=tiny)
    # any array is a condition (non-zero selects): integer counts, float weights, with zeros among them
    for cname, cnd in (("int counts", onp.array([[0, 2, 1], [3, 0, -1]])), ("float weights", onp.array([[0.0, 0.5, -1.0], [2.0, 0.0, 1.5]])),
                       ("float row", onp.array([0.0, -2.5, 3.0]))):
        lin("where", "condition of %s" % cname, (lambda m, a, b, cnd=cnd: m.where(cnd, a, b)), [iarr(rng, A23), iarr(rng, A23)], (0, 1))
        lin("where", "condition of %s, scalar branch" % cname, (lambda m, a, b, cnd=cnd: m.where(cnd, a, b)), [iarr(rng, A23), 1.5], (0, 1))
    # the condition itself differentiated (its rule is registered as None: zero of the CONDITION's space)
    add("where", "float condition (3,) vs (2,3) branches", (lambda m, c, a, b: m.where(c, a, b)),
        [onp.array([1.0, -3.0, 2.0]), iarr(rng, A23), iarr(rng, A23)], [0], False, modes=("rev",))
    add("where", "float scalar gate", (lambda m, c, a, b: m.where(c, a, b)), [1.0, iarr(rng, A23), iarr(rng, A23)], [0], False, modes=("rev",))
    add("where", "real condition, complex branches", (lambda m, c, a, b: m.where(c, a, b)),
        [onp.array([1.0, -3.0, 2.0]), iarr(rng, (3,), cplx=True), iarr(rng, (3,), cplx=True)], [0], False, modes=("rev",))
    lin("full", "scalar-fill", (lambda m, a: m.full((2, 3), a)), [2.0])
    lin("full", "array-fill", (lambda m, a: m.full((2, 3), a)), [iarr(rng, (3,))])
    add("clip", "inside-and-outside", (lambda m, z: m.clip(z, -0.9, 1.1)), [distinct(rng, A23)], [0], False)
    lin("linspace", "start/stop", (lambda m, a, b: m.linspace(a, b, 5)), [1.0, 3.0], (0, 1))
    for n, ax in ((1, -1), (1, 0), (2, 1), (2, 0), (1, -2)):
        lin("diff", "n=%d axis=%d" % (n, ax), (lambda m, z, n=n, ax=ax: m.diff(z, n=n, axis=ax)), [iarr(rng, (3, 4))])
    lin("gradient", "1-D", (lambda m, z: m.gradient(z)), [iarr(rng, (5,))])
    lin("gradient", "2-D axis=0", (lambda m, z: m.gradient(z, axis=0)), [iarr(rng, (5, 4))])
    lin("gradient", "2-D axis=-1", (lambda m, z: m.gradient(z, axis=-1)), [iarr(rng, (5, 4))], modes=("rev",))
    for axs in ((0, 1), [1, 0], (1,), (-1, 0), None):
        lin("gradient", "2-D axis=%r (several results)" % (axs,),
            (lambda m, z, axs=axs: (lambda r: r[0] * 2.0 + r[-1])(m.gradient(z, axis=axs) if axs is None or len(axs) > 1 else [m.gradient(z, axis=axs)[0]] if isinstance(m.gradient(z, axis=axs), (list, tuple)) else [m.gradient(z, axis=axs)])),
            [iarr(rng, (5, 4))], modes=("rev",))
    lin("gradient", "3-D axis=(0, 2)", (lambda m, z: (lambda r: r[0] - 3.0 * r[1])(m.gradient(z, axis=(0, 2)))), [iarr(rng, (3, 2, 4))], modes=("rev",))
    lin("gradient", "2-D spacing 2.0, 0.5", (lambda m, z: (lambda r: r[0] + r[1])(m.gradient(z, 2.0, 0.5))), [iarr(rng, (4, 4))])
    lin("gradient", "3-D spacings 0.5, 2.0, 4.0", (lambda m, z: (lambda r: r[0] + 2.0 * r[1] - r[2])(m.gradient(z, 0.5, 2.0, 4.0))), [iarr(rng, (3, 3, 3))])
    lin("gradient", "2-D one spacing for both axes", (lambda m, z: (lambda r: r[0] - r[1])(m.gradient(z, 0.5))), [iarr(rng, (4, 3))])
    lin("astype", "float32", (lambda m, z: z.astype(onp.float32)), [iarr(rng, A23)], modes=("rev",))
    lin("array", "nested-list", (lambda m, a, b: m.array([[a, b], [b, a]])), [2.0, 3.0], (0, 1))
    lin("array", "list-of-arrays", (lambda m, a, b: m.array([a, b])), [iarr(rng, (3,)), iarr(rng, (3,))], (0, 1))
    lin("array", "ndmin", (lambda m, a: m.array(a, ndmin=3)), [iarr(rng, (3,))])
    for sh in ((1, 3), (3, 1), (1,), (), (1, 1)):
        lin("array", "ndmin=3 of shape %s" % (sh,), (lambda m, a: m.array(a, ndmin=3)), [iarr(rng, sh)], modes=("rev",))
        lin("array", "ndmin=1 of shape %s" % (sh,), (lambda m, a: m.array(a, ndmin=1)), [iarr(rng, sh)], modes=("rev",))
    lin("column_stack", "length-1 vectors", (lambda m, a: m.column_stack([a, 2.0 * a])), [iarr(rng, (1,))], modes=("rev",))
    lin("atleast_2d", "shape (1,)", (lambda m, a: m.atleast_2d(a)), [iarr(rng, (1,))], modes=("rev",))
    lin("atleast_3d", "shape (1, 1)", (lambda m, a: m.atleast_3d(a)), [iarr(rng, (1, 1))], modes=("rev",))
    add("sort", "1-D", (lambda m, z: m.sort(z)), [distinct(rng, (5,))], [0], False)
    add("sort", "2-D", (lambda m, z: m.sort(z, axis=-1)), [distinct(rng, A23)], [0], False)
    add("partition", "1-D", (lambda m, z: m.partition(z, 2)), [distinct(rng, (5,))], [0], False)
    # the same shape along different axes one after the other (a rule that caches per shape must not leak between them)
    for sh in ((3, 4), (2, 3, 2)):
        for ax in list(range(len(sh))) + [-1, None] + list(range(len(sh))):
            add("sort", "shape=%s axis=%s" % (sh, ax), (lambda m, z, ax=ax: m.sort(z, axis=ax)), [distinct(rng, sh)], [0], False)
            add("partition", "shape=%s axis=%s" % (sh, ax), (lambda m, z, ax=ax: m.partition(z, 1, axis=ax)), [distinct(rng, sh)], [0], False)
    add("sort", "composed axes", (lambda m, z: m.sort(m.sort(z, axis=0), axis=1)), [distinct(rng, (3, 4))], [0], False)
    lin("select", "two-branches", (lambda m, a, b: m.select([cond, ~cond], [a, b])), [iarr(rng, A23), iarr(rng, A23)], (0, 1))
    # indexing (also C11)
    idxs = [("int", 1), ("neg-int", -1), ("slice", slice(0, 2)), ("step-slice", slice(None, None, -2)), ("tuple", (1, slice(None))),
            ("ellipsis", (Ellipsis, 0)), ("newaxis", (None, 1)), ("int-array-repeats", onp.array([0, 0, 2])), ("list-repeats", [1, 1]),
            ("bool-mask", onp.array([True, False, True])), ("two-int-arrays", (onp.array([0, 2, 0]), onp.array([1, 1, 1]))),
            ("mixed", (slice(1, None), [0, 0]))]
    for tag, ix in idxs:
        lin("getitem", tag, (lambda m, z, ix=ix: z[ix]), [iarr(rng, (3, 2))])
    # ---- F5: contractions (bilinear: exact in each argument) ----
    mats = [((), ()), ((), (3,)), ((3,), ()), ((3,), (3,)), ((2, 3), (3,)), ((3,), (3, 2)), ((2, 3), (3, 2)),
            ((2, 2, 3), (3,)), ((2, 2, 3), (3, 2)), ((2, 3), (2, 3, 2)), ((2, 2, 3), (2, 3, 2))]
    for s1, s2 in mats:
        lin("dot", "shapes=%s,%s" % (s1, s2), (lambda m, a, b: m.dot(a, b)), [iarr(rng, s1), iarr(rng, s2)], (0, 1))
    mm = [((3,), (3,)), ((2, 3), (3,)), ((3,), (3, 2)), ((2, 3), (3, 2)), ((2, 2, 3), (3, 2)), ((2, 3), (2, 3, 2)),
          ((2, 2, 3), (2, 3, 2)), ((1, 2, 3), (2, 3, 2)), ((2, 1, 2, 3), (3, 3, 2)), ((2, 2, 3), (3,)), ((3,), (2, 3, 2))]
    for s1, s2 in mm:
        lin("matmul", "shapes=%s,%s" % (s1, s2), (lambda m, a, b: m.matmul(a, b)), [iarr(rng, s1), iarr(rng, s2)], (0, 1))
        lin("op@", "shapes=%s,%s" % (s1, s2), (lambda m, a, b: a @ b), [iarr(rng, s1), iarr(rng, s2)], (0, 1))
    for s1, s2 in (((3,), (2,)), ((2, 2), (3,)), ((), (3,))):
        lin("outer", "shapes=%s,%s" % (s1, s2), (lambda m, a, b: m.outer(a, b)), [iarr(rng, s1), iarr(rng, s2)], (0, 1))
    for s1, s2 in (((3,), (3,)), ((2, 3), (3,)), ((2, 3), (4, 3)), ((), (3,)), ((2, 2, 3), (2, 3))):
        lin("inner", "shapes=%s,%s" % (s1, s2), (lambda m, a, b: m.inner(a, b)), [iarr(rng, s1), iarr(rng, s2)], (0, 1))
    td = [((2, 3), (3, 2), 1), ((2, 3), (2, 3), 2), ((2, 3), (4,), 0), ((2, 3, 2), (3, 2, 2), 2),
          ((2, 3, 2), (2, 3), ([0, 1], [0, 1])), ((2, 3, 2), (3, 2), ([1], [0])), ((2, 3, 2), (2, 2, 3), ([0, 1], [1, 2])),
          ((2, 3, 2), (3, 2), ([-2], [-2])), ((2, 3), (3,), (1, 0)), ((3,), (3,), 1),
          # crossed pairings of the contracted axes, equal and unequal sizes
          ((2, 3), (3, 2), ([0, 1], [1, 0])), ((3, 3), (3, 3), ([0, 1], [1, 0])), ((2, 3, 4), (4, 2, 5), ([0, 2], [1, 0])),
          ((2, 3, 4), (5, 4, 2), ([2, 0], [1, 2])), ((2, 3, 2), (2, 2), ([2, 0], [0, 1])), ((2, 3, 4), (3, 4, 2), ([1, 2, 0], [0, 1, 2])),
          ((2, 3, 4), (4, 3), ([-1, -2], [0, 1])), ((2, 3), (2, 3), ([1, 0], [1, 0]))]
    for s1, s2, ax in td:
        lin("tensordot", "shapes=%s,%s axes=%s" % (s1, s2, ax), (lambda m, a, b, ax=ax: m.tensordot(a, b, ax)), [iarr(rng, s1), iarr(rng, s2)], (0, 1))
    for s1, s2 in (((2,), (3,)), ((2, 2), (2, 3)), ((2,), (2, 3)), ((2, 2), (3,)), ((), (2, 2)), ((2, 1, 2), (2, 2, 1)), ((2, 2, 2), (2,))):
        tag = "shapes=%s,%s%s" % (s1, s2, " ndim>2" if max(len(s1), len(s2)) > 2 else "")
        lin("kron", tag, (lambda m, a, b: m.kron(a, b)), [iarr(rng, s1), iarr(rng, s2)], (0, 1))
    es = [("ij,jk->ik", (2, 3), (3, 2)), ("ij,ij->", (2, 3), (2, 3)), ("i,i->i", (3,), (3,)), ("ij->ji", (2, 3), None),
          ("ii->i", (3, 3), None), ("ij->", (2, 3), None), ("...ij,jk->...ik", (2, 2, 3), (3, 2)), ("ij,kj->ik", (2, 3), (4, 3)),
          ("i,j->ij", (2,), (3,)), ("ijk,k->ij", (2, 3, 2), (2,)), ("ij,j", (2, 3), (3,)),
          # named axes of length 1 are stretched by einsum too (no ellipsis involved)
          ("bi,bi->b", (1, 3), (5, 3)), ("bi,bi->b", (5, 3), (1, 3)), ("ij,ij->ij", (2, 1), (2, 3)), ("ij,jk->ik", (2, 1), (3, 2)),
          ("i,i->", (1,), (4,)), ("ab,ab->a", (3, 1), (1, 4)), ("...i,...i->...", (1, 3), (5, 3)), ("bi,bi", (1, 3), (5, 3))]
    for sub, s1, s2 in es:
        if s2 is None:
            lin("einsum", sub, (lambda m, a, sub=sub: m.einsum(sub, a)), [iarr(rng, s1)])
        else:
            lin("einsum", sub, (lambda m, a, b, sub=sub: m.einsum(sub, a, b)), [iarr(rng, s1), iarr(rng, s2)], (0, 1))
    # interleaved operand / sublist form, Ellipsis leading, central and trailing, with extra broadcast dimensions
    E = Ellipsis
    esl = [((2, 3), [0, 1], (3, 4), [1, 2], [0, 2]), ((2, 3), [E, 0, 1], (5, 3, 4), [E, 1, 2], [E, 0, 2]),
           ((2, 3), [0, E, 1], (3, 5, 4), [1, E, 2], [0, E, 2]), ((2, 3), [0, 1, E], (3, 4, 5), [1, 2, E], [0, 2, E]),
           ((2, 3), [0, 1, E], (3, 4, 5, 6), [1, 2, E], [0, 2, E]), ((2, 3), [0, E, 1], (3, 5, 6, 4), [1, E, 2], [0, E, 2]),
           ((2, 3), [E, 0, 1], (5, 6, 3, 4), [E, 1, 2], [E, 0, 2]), ((5, 2, 3), [E, 0, 1], (3, 4), [E, 1, 2], [E, 0, 2]),
           ((2, 5, 3), [0, E, 1], (3, 4), [1, E, 2], [0, E, 2]), ((3,), [0], (3,), [0], []), ((2, 3), [0, 1], None, None, [1, 0]),
           # all extents equal, so that a reduction over the wrong axes keeps the right shape
           ((2, 2), [0, 1, E], (3, 2, 2, 5), [2, 0, E], [2, 1, E]), ((2, 2), [0, 1, E], (2, 2, 2, 2, 2), [2, 0, E], [2, 1, E]),
           ((2, 2), [E, 0, 1], (2, 2, 2, 2), [E, 1, 2], [E, 0, 2]), ((2, 2), [0, E, 1], (2, 2, 2, 2), [1, E, 2], [0, E, 2]),
           ((2, 2, 2), [0, 1, E], (2, 2, 2, 2, 2), [2, 0, E], [2, 1, E]),
           # named axes of length 1 in the operand form
           ((2, 1), [0, 1], (3, 2), [1, 2], [0, 2]), ((1, 3), [0, 1], (5, 3), [0, 1], [0])]
    for s1, l1, s2, l2, lo in esl:
        tag = "sublist %s,%s->%s shapes=%s,%s" % (str(l1).replace("Ellipsis", "..."), str(l2).replace("Ellipsis", "..."),
                                                str(lo).replace("Ellipsis", "..."), s1, s2)
        if s2 is None:
            lin("einsum", tag, (lambda m, a, l1=l1, lo=lo: m.einsum(a, l1, lo)), [iarr(rng, s1)])
        else:
            lin("einsum", tag, (lambda m, a, b, l1=l1, l2=l2, lo=lo: m.einsum(a, l1, b, l2, lo)), [iarr(rng, s1), iarr(rng, s2)], (0, 1))
    for s1, s2 in (((3,), (3,)), ((2, 3), (2, 3)), ((3,), (4, 3)), ((2, 3), (3,)), ((2,), (2,))):
        tag = "shapes=%s,%s%s" % (s1, s2, " broadcast" if s1 != s2 else "")
        lin("cross", tag, (lambda m, a, b: m.cross(a, b)), [iarr(rng, s1), iarr(rng, s2)], (0, 1))
    # ---- an explicit accumulator dtype must not leak into the gradient's dtype ----
    # (linear reductions on small integers: exact in every float type)
    for tag, f in (("sum(x,dtype=float32)", lambda m, z: m.sum(z, dtype=onp.float32)), ("sum(x,axis=0,dtype=float32)", lambda m, z: m.sum(z, axis=0, dtype=onp.float32)),
                   ("x.sum(dtype=float32)", lambda m, z: z.sum(dtype=onp.float32)), ("cumsum(x,dtype=float32)", lambda m, z: m.cumsum(z, dtype=onp.float32)),
                   ("sum(x,dtype=longdouble)", lambda m, z: m.sum(z, dtype=onp.longdouble)), ("trace(x,dtype=float32)", lambda m, z: m.trace(z, dtype=onp.float32)),
                   ("sum(x,axis=(0,1),dtype=float16,keepdims)", lambda m, z: m.sum(z, axis=(0, 1), dtype=onp.float16, keepdims=True))):
        add("dtype-kw", tag, f, [onp.array([[1.0, 2.0, -1.0], [3.0, -2.0, 3.0]])], [0], True)
    # ---- the vector-space primitives used by gradient accumulation and by the checker (core.py) ----
    from autograd.core import vspace as _vs
    VA, VB = iarr(rng, (2, 3)), iarr(rng, (2, 3))
    for tag, f, args in (("vs.add", lambda m, a, b: _vs(onp.zeros((2, 3))).add(a, b), [VA, VB]),
                         ("vs.scalar_mul(x,a)", lambda m, a, b: _vs(onp.zeros((2, 3))).scalar_mul(a, b), [VA, 2.0]),
                         ("vs.inner_prod", lambda m, a, b: _vs(onp.zeros((2, 3))).inner_prod(a, b), [VA, VB]),
                         ("vs.covector", lambda m, a, b: _vs(onp.zeros((2, 3))).covector(a) + 0 * b, [VA, VB]),
                         ("vs.mut_add(None,x)", lambda m, a, b: _vs(onp.zeros((2, 3))).mut_add(None, a) + b, [VA, VB])):
        add("vspace", tag, f, args, [0, 1], True)
    # ---- positional call forms: the optional arguments of NumPy's signatures given by position ----
    P23, P232 = distinct(rng, (2, 3)), distinct(rng, (2, 3, 2))
    for tag, f, x, ex in (
        ("sum(x,1)", lambda m, z: m.sum(z, 1), iarr(rng, (2, 3)), True), ("sum(x,(0,2),None,None,True)", lambda m, z: m.sum(z, (0, 2), None, None, True), iarr(rng, (2, 3, 2)), True),
        ("mean(x,0)", lambda m, z: m.mean(z, 0), P23, False), ("mean(x,-1,None,None,True)", lambda m, z: m.mean(z, -1, None, None, True), P232, False),
        ("var(x,1)", lambda m, z: m.var(z, 1), P23, False), ("var(x,0,None,None,1)", lambda m, z: m.var(z, 0, None, None, 1), P23, False),
        ("std(x,1,None,None,0,True)", lambda m, z: m.std(z, 1, None, None, 0, True), P23, False),
        ("max(x,1)", lambda m, z: m.max(z, 1), P23, False), ("min(x,0,None,True)", lambda m, z: m.min(z, 0, None, True), P23, False),
        ("prod(x,1)", lambda m, z: m.prod(z, 1), P23, False), ("cumsum(x,1)", lambda m, z: m.cumsum(z, 1), iarr(rng, (2, 3)), True),
        ("sort(x,0)", lambda m, z: m.sort(z, 0), P23, False), ("repeat(x,2,1)", lambda m, z: m.repeat(z, 2, 1), iarr(rng, (2, 3)), True),
        ("roll(x,1,0)", lambda m, z: m.roll(z, 1, 0), iarr(rng, (2, 3)), True), ("expand_dims(x,1)", lambda m, z: m.expand_dims(z, 1), iarr(rng, (2, 3)), True),
        ("squeeze(x,0)", lambda m, z: m.squeeze(z, 0), iarr(rng, (1, 3)), True), ("flip(x,1)", lambda m, z: m.flip(z, 1), iarr(rng, (2, 3)), True),
        ("take(x,[0,2],1)", lambda m, z: m.take(z, [0, 2], 1), iarr(rng, (2, 3)), True), ("diff(x,1,0)", lambda m, z: m.diff(z, 1, 0), iarr(rng, (3, 2)), True),
        ("linalg.norm(x,None,1)", lambda m, z: m.linalg.norm(z, None, 1), P23, False), ("linalg.norm(x,3,0)", lambda m, z: m.linalg.norm(z, 3, 0), P23, False),
        ("pad(x,1,'constant')", lambda m, z: m.pad(z, 1, "constant"), iarr(rng, (2, 3)), True), ("clip(x,-1,1)", lambda m, z: m.clip(z, -1.0, 1.0), P23, False),
        ("tile(x,(2,1))", lambda m, z: m.tile(z, (2, 1)), iarr(rng, (2, 3)), True), ("reshape(x,(3,2),'C')", lambda m, z: m.reshape(z, (3, 2), "C"), iarr(rng, (2, 3)), True),
        ("transpose(x,(1,0))", lambda m, z: m.transpose(z, (1, 0)), iarr(rng, (2, 3)), True), ("swapaxes(x,0,2)", lambda m, z: m.swapaxes(z, 0, 2), iarr(rng, (2, 3, 2)), True),
        ("moveaxis(x,0,-1)", lambda m, z: m.moveaxis(z, 0, -1), iarr(rng, (2, 3, 2)), True), ("trace(x,1,0,1)", lambda m, z: m.trace(z, 1, 0, 1), iarr(rng, (3, 3)), True),
        ("diagonal(x,0,2,0)", lambda m, z: m.diagonal(z, 0, 2, 0), iarr(rng, (2, 3, 2)), True), ("triu(x,1)", lambda m, z: m.triu(z, 1), iarr(rng, (3, 3)), True),
        ("concatenate((x,y),1)", lambda m, z: m.concatenate((z, 2 * z), 1), iarr(rng, (2, 3)), True), ("stack((x,y),1)", lambda m, z: m.stack((z, 2 * z), 1), iarr(rng, (2, 3)), True),
        ("tensordot(x,B,1)", lambda m, z: m.tensordot(z, onp.arange(6.0).reshape(3, 2), 1), iarr(rng, (2, 3)), True),
        ("x.sum(1)", lambda m, z: z.sum(1), iarr(rng, (2, 3)), True), ("x.mean(0)", lambda m, z: z.mean(0), P23, False), ("x.max(1)", lambda m, z: z.max(1), P23, False),
        ("x.reshape(3,2)", lambda m, z: z.reshape(3, 2), iarr(rng, (2, 3)), True), ("x.transpose(1,0)", lambda m, z: z.transpose(1, 0), iarr(rng, (2, 3)), True),
        ("x.swapaxes(0,1)", lambda m, z: z.swapaxes(0, 1), iarr(rng, (2, 3)), True), ("x.cumsum(0)", lambda m, z: z.cumsum(0), iarr(rng, (2, 3)), True),
        ("x.clip(-1,1)", lambda m, z: z.clip(-1.0, 1.0), P23, False), ("x.repeat(2,0)", lambda m, z: z.repeat(2, 0), iarr(rng, (2, 3)), True),
        ("x.take([1,0],1)", lambda m, z: z.take([1, 0], 1), iarr(rng, (2, 3)), True), ("x.dot(B)", lambda m, z: z.dot(onp.arange(6.0).reshape(3, 2)), iarr(rng, (2, 3)), True),
        ("x.std(1)", lambda m, z: z.std(1), P23, False), ("x.var(0)", lambda m, z: z.var(0), P23, False), ("x.prod(1)", lambda m, z: z.prod(1), P23, False),
        ("x.diagonal(0,1,0)", lambda m, z: z.diagonal(0, 1, 0), iarr(rng, (3, 3)), True), ("x.trace()", lambda m, z: z.trace(), iarr(rng, (3, 3)), True),
        ("x.squeeze(0)", lambda m, z: z.squeeze(0), iarr(rng, (1, 3)), True), ("x.flatten()", lambda m, z: z.flatten(), iarr(rng, (2, 3)), True),
    ):
        add("positional", tag, f, [x], [0], ex)
    # ---- linalg (numeric oracle) ----
    def spd(n):
        a = distinct(rng, (n, n))
        return a @ a.T + n * onp.eye(n)
    add("linalg.inv", "2x2", (lambda m, a: m.linalg.inv(a)), [spd(2)], [0], False)
    add("linalg.inv", "batched", (lambda m, a: m.linalg.inv(a)), [onp.stack([spd(2), spd(2)])], [0], False)
    add("linalg.det", "3x3", (lambda m, a: m.linalg.det(a)), [spd(3)], [0], False)
    add("linalg.slogdet", "3x3 logdet", (lambda m, a: m.linalg.slogdet(a)[1]), [spd(3)], [0], False)
    add("linalg.solve", "matrix rhs", (lambda m, a, b: m.linalg.solve(a, b)), [spd(3), distinct(rng, (3, 2))], [0, 1], False)
    add("linalg.solve", "vector rhs", (lambda m, a, b: m.linalg.solve(a, b)), [spd(3), distinct(rng, (3,))], [0, 1], False)
    add("linalg.cholesky", "3x3", (lambda m, a: m.linalg.cholesky((a + m.swapaxes(a, -1, -2)) / 2)), [spd(3)], [0], False)
    add("linalg.eigh", "eigenvalues", (lambda m, a: m.linalg.eigh((a + m.swapaxes(a, -1, -2)) / 2)[0]), [spd(3)], [0], False)
    add("linalg.pinv", "2x3", (lambda m, a: m.linalg.pinv(a)), [distinct(rng, (2, 3))], [0], False)
    add("linalg.svd", "singular values", (lambda m, a: m.linalg.svd(a, compute_uv=False)), [distinct(rng, (2, 3))], [0], False)
    for ordv, ax, sh in ((None, None, (4,)), (None, None, (2, 3)), (2, None, (4,)), ("fro", None, (2, 3)), (None, 0, (2, 3)),
                         (None, -1, (2, 3)), (2, 1, (2, 3)), (3, None, (4,)), ("nuc", None, (2, 3)), (None, (0, 1), (2, 3)),
                         (1.5, 0, (3, 2)),
                         # matrix norms over every kind of axis pair of 3-D / 4-D input: increasing, reversed, adjacent, non-adjacent, negative
                         ("nuc", (0, 1), (2, 3, 2)), ("nuc", (1, 2), (2, 3, 2)), ("nuc", (0, 2), (2, 3, 2)), ("nuc", (2, 0), (2, 3, 2)),
                         ("nuc", (1, 0), (2, 3, 2)), ("nuc", (2, 1), (2, 3, 2)), ("nuc", (-1, 0), (2, 3, 2)), ("nuc", (-1, -3), (2, 3, 2)),
                         ("nuc", (3, 1), (2, 3, 2, 3)), ("nuc", (2, 0), (2, 3, 2, 3)), ("nuc", (0, 3), (2, 3, 2, 3)),
                         ("fro", (2, 0), (2, 3, 2)), ("fro", (1, 2), (2, 3, 2)), (None, (2, 0), (2, 3, 2)), (None, (3, 1), (2, 3, 2, 3)),
                         (None, (-1, -3), (2, 3, 2)), ("fro", (0, -2), (2, 3, 2)), (None, (-3, -1), (2, 3, 2)), ("fro", (-2, -1), (2, 3, 2)),
                         (None, (1, -1), (3, 3, 3)), ("fro", (-1, 0), (3, 3, 3)), ("nuc", (0, -2), (2, 3, 2)), ("nuc", (-2, -3), (3, 3, 3)),
                         (3, 1, (2, 3, 2)), (2.5, -1, (2, 3, 2)), (4, 0, (2, 3, 2)), (None, 2, (2, 3, 2)),
                         # square and cubic inputs, where a mis-aligned broadcast of the norm would go unnoticed by shape
                         (3, 0, (3, 3)), (3, 1, (3, 3)), (3, -1, (3, 3)), (4, 1, (3, 3, 3)), (2.5, 0, (3, 3, 3)), (3, 2, (3, 3, 3)),
                         (None, 1, (3, 3)), (2, -1, (3, 3, 3)),
                         # matrix norms the rules do not implement: both modes must raise or be right
                         (2, None, (2, 3)), (2, (0, 1), (2, 3, 2)), (-2, None, (3, 3)), (1, None, (2, 3)), (onp.inf, None, (2, 3)),
                         (2, (2, 0), (2, 3, 2)), (1, (0, 1), (2, 3, 2))):
        add("linalg.norm", "ord=%s axis=%s shape=%s" % (ordv, ax, sh), (lambda m, a, ordv=ordv, ax=ax: m.linalg.norm(a, ordv, ax)), [distinct(rng, sh)], [0], False)
    # ---- fft (complex-linear: exact) ----
    for name, sh, kw in (("fft", (4,), {}), ("ifft", (4,), {}), ("fft", (2, 4), {"axis": 0}), ("fft2", (2, 4), {}),
                         ("ifft2", (2, 4), {}), ("fftn", (2, 2, 2), {}), ("ifftn", (2, 2), {}), ("rfft", (4,), {}), ("irfft", (3,), {}),
                         ("fft", (4,), {"n": 6}), ("fft", (4,), {"n": 3}), ("fft", (4,), {"norm": "ortho"}),
                         ("rfft", (4,), {"norm": "ortho"}), ("fftshift", (5,), {}), ("ifftshift", (4,), {}),
                         ("rfft2", (2, 4), {}), ("rfftn", (2, 4), {}),
                         # explicit (odd / even, longer / shorter) lengths and non-default axes: raise or be right
                         ("rfft", (4,), {"n": 5}), ("rfft", (6,), {"n": 3}), ("rfft", (4,), {"n": 6}), ("rfft", (5,), {"n": 4}),
                         ("irfft", (3,), {"n": 5}), ("irfft", (3,), {"n": 4}), ("irfft", (4,), {"n": 6}),
                         ("rfftn", (4, 4), {"s": (4, 3)}), ("rfftn", (4, 4), {"s": (3, 4)}), ("rfft2", (4, 4), {"s": (3, 3)}),
                         ("rfft2", (4, 4), {"s": (6, 4)}), ("irfftn", (4, 3), {"s": (4, 5)}), ("irfft2", (4, 3), {"s": (4, 4)}),
                         ("rfft", (3, 4), {"axis": 0}), ("rfft", (4, 3), {"axis": 0}), ("rfftn", (4, 3), {"axes": (1, 0)}),
                         ("rfftn", (3, 4), {"axes": (1, 0)}), ("rfft2", (2, 3, 4), {"axes": (2, 1)}), ("rfft2", (2, 4, 3), {"axes": (2, 1)}),
                         ("irfft", (3, 4), {"axis": 0}), ("fft", (3, 4), {"axis": 0, "n": 5}), ("ifft", (4,), {"n": 6, "norm": "forward"}),
                         ("fftn", (2, 4), {"s": (3, 5)}), ("fft2", (4, 4), {"axes": (1, 0)}), ("ifftn", (2, 4), {"axes": (1,)}),
                         # the same shapes with other axes right after each other (a per-shape cache must not leak)
                         ("rfft", (4, 6), {"axis": 1}), ("rfft", (6, 4), {"axis": 0}), ("rfft", (4, 4), {"axis": 1}), ("rfft", (4, 4), {"axis": 0}),
                         ("irfft", (3, 4), {"axis": 0}), ("irfft", (4, 3), {"axis": 1}), ("rfft2", (4, 4), {"axes": (0, 1)}),
                         ("rfft2", (4, 4), {"axes": (1, 0)}), ("rfftn", (4, 4, 4), {"axes": (0, 2)}), ("rfftn", (4, 4, 4), {"axes": (2, 0)}),
                         ("rfftn", (4, 4, 4), {"axes": (1, 2)})):
        add("fft." + name, "shape=%s %s" % (sh, kw), (lambda m, a, name=name, kw=kw: getattr(m.fft, name)(a, **kw)), [distinct(rng, sh)], [0], False)
    return out


def _np_make_diagonal(D, offset=0, axis1=1, axis2=2):
    # NumPy has no make_diagonal; build it from its definition (inverse of diagonal)
    n = D.shape[-1]
    out = onp.zeros(D.shape[:-1] + (n, n), dtype=D.dtype)
    for i in range(n):
        out[..., i, i] = D[..., i]
    return out


def complex_cases(rng, tier):
    """C09: real/complex mixes of the arguments of primitives that are linear,
    bilinear, rational or the real/imag/conj/abs/angle family."""
    out = []

    def add(prim, tag, f, args, diff, exact):
        out.append(Case(prim, tag + " complex", f, args, diff, exact))
    z23, w23, z3, r23 = iarr(rng, (2, 3), cplx=True), iarr(rng, (2, 3), cplx=True), iarr(rng, (3,), cplx=True), iarr(rng, (2, 3))
    w32 = iarr(rng, (3, 2), cplx=True)
    for name in ("add", "subtract", "multiply"):
        add(name, "complex,complex", (lambda m, a, b, name=name: getattr(m, name)(a, b)), [z23, w23], [0, 1], True)
        add(name, "real,complex", (lambda m, a, b, name=name: getattr(m, name)(a, b)), [r23, w23], [0, 1], True)
        add(name, "complex,real-broadcast", (lambda m, a, b, name=name: getattr(m, name)(a, b)), [z23, iarr(rng, (3,))], [0, 1], True)
    gz = (distinct(rng, (2, 3)) + 1j * distinct(rng, (2, 3), 0.8, 0.2))
    gw = (distinct(rng, (2, 3), 0.9, 0.3) + 1j * distinct(rng, (2, 3), 1.1, -0.2))
    add("divide", "complex,complex", (lambda m, a, b: m.divide(a, b)), [gz, gw], [0, 1], False)
    add("divide", "real,complex", (lambda m, a, b: m.divide(a, b)), [distinct(rng, (2, 3)), gw], [0, 1], False)
    for name in ("reciprocal", "square", "negative", "conj", "real", "imag", "abs", "absolute", "angle", "exp", "sin", "cos", "log", "sqrt", "tanh"):
        add(name, "generic", (lambda m, a, name=name: getattr(m, name)(a)), [gz], [0], False)
    add("power", "complex**int", (lambda m, a: m.power(a, 3)), [gz], [0], False)
    # every real / complex mix of base and exponent, each argument differentiated (bases away from the branch cut)
    cbase = onp.array([0.8 + 1.3j, 0.4 + 0.7j, 1.5 - 0.2j])
    rbase = onp.array([0.8, 1.7, 2.5])
    cexp = onp.array([0.3 - 0.5j, 1.2 + 0.4j, -0.6 + 0.2j])
    rexp = onp.array([1.7, 0.6, -1.3])
    for bn, bs in (("complex base", cbase), ("real base", rbase)):
        for en, es in (("complex exponent", cexp), ("real exponent", rexp)):
            if bn == "real base" and en == "real exponent":
                continue
            add("power", "%s, %s" % (bn, en), (lambda m, a, b: m.power(a, b)), [bs, es], [0, 1], False)
            add("op**", "%s, %s" % (bn, en), (lambda m, a, b: a ** b), [bs, es], [0, 1], False)
    add("power", "complex base, Python float exponent", (lambda m, a, b: m.power(a, b)), [cbase, 1.7], [0, 1], False)
    add("op**", "constant complex base 2j ** y", (lambda m, b: (2j) ** b), [rexp], [0], False)
    add("op**", "constant real base 2.5 ** complex y", (lambda m, b: 2.5 ** b), [cexp], [0], False)
    add("exp", "complex exponent", (lambda m, b: m.exp(b * (1.0 + 0.5j))), [cexp], [0], False)
    add("log", "complex argument", (lambda m, a: m.log(a)), [cbase], [0], False)
    add("sqrt", "complex argument", (lambda m, a: m.sqrt(a)), [cbase], [0], False)
    for name, f, args in (
        ("sum", lambda m, a: m.sum(a, axis=0), [z23]),
        ("dot", lambda m, a, b: m.dot(a, b), [z23, w32]), ("dot", lambda m, a, b: m.dot(a, b), [r23, w32]),
        ("matmul", lambda m, a, b: m.matmul(a, b), [z23, w32]), ("outer", lambda m, a, b: m.outer(a, b), [z3, z3]),
        ("inner", lambda m, a, b: m.inner(a, b), [r23, iarr(rng, (3,), cplx=True)]), ("tensordot", lambda m, a, b: m.tensordot(a, b, 1), [z23, w32]),
        ("kron", lambda m, a, b: m.kron(a, b), [iarr(rng, (2,), cplx=True), iarr(rng, (2,))]),
        ("vstack", lambda m, a, b: m.vstack([a, b]), [r23, z23]), ("hstack", lambda m, a, b: m.hstack([a, b]), [z23, r23]),
        ("stack", lambda m, a, b: m.stack([a, b]), [r23, z23]), ("append", lambda m, a, b: m.append(a, b), [r23, z3]),
        ("transpose", lambda m, a: m.transpose(a), [z23]), ("reshape", lambda m, a: m.reshape(a, (3, 2)), [z23]),
        ("getitem", lambda m, a: a[::-1, [0, 0]], [z23]), ("concatenate", lambda m, a, b: m.concatenate([a, b]), [z23, r23]),
        ("where", lambda m, a, b: m.where(onp.array([True, False, True]), a, b), [z3, iarr(rng, (3,))]),
        ("einsum", lambda m, a, b: m.einsum("ij,jk->ik", a, b), [z23, w32]),
        ("cumsum", lambda m, a: m.cumsum(a, axis=1), [z23]), ("diag", lambda m, a: m.diag(a), [z3]),
        ("trace", lambda m, a: m.trace(a), [z23]), ("repeat", lambda m, a: m.repeat(a, 2, axis=0), [z23]),
    ):
        add(name, "mix", f, args, list(range(len(args))), True)
    add("mean", "complex", (lambda m, a: m.mean(a, axis=-1)), [gz], [0], False)
    add("var", "complex", (lambda m, a: m.var(a)), [gz], [0], False)
    add("std", "complex", (lambda m, a: m.std(a, axis=0)), [gz], [0], False)
    add("linalg.norm", "complex vector", (lambda m, a: m.linalg.norm(a)), [gz[0]], [0], False)
    add("linalg.norm", "complex fro", (lambda m, a: m.linalg.norm(a, "fro")), [gz], [0], False)
    for ordv, ax in ((3, None), (3, 0), (1.5, 1), (4, -1), (2, 0), (None, 1)):
        add("linalg.norm", "complex ord=%s axis=%s" % (ordv, ax),
            (lambda m, a, ordv=ordv, ax=ax: m.linalg.norm(a if ax is not None else a[0], ordv, ax)), [gz], [0], False)
    add("linalg.norm", "complex nuc", (lambda m, a: m.linalg.norm(a, "nuc")), [gz], [0], False)
    add("fft.fft", "complex input", (lambda m, a: m.fft.fft(a)), [gz[0]], [0], True if False else False)
    add("fft.ifft", "complex input", (lambda m, a: m.fft.ifft(a)), [gz[0]], [0], False)
    from autograd.core import vspace as _vs
    CZ = onp.zeros((2, 3), dtype=complex)
    for tag, f, args in (("vs.add", lambda m, a, b: _vs(CZ).add(a, b), [z23, w23]),
                         ("vs.scalar_mul", lambda m, a, b: _vs(CZ).scalar_mul(a, b), [z23, 2.0]),
                         ("vs.inner_prod", lambda m, a, b: _vs(CZ).inner_prod(a, b), [z23, w23]),
                         ("vs.covector", lambda m, a, b: _vs(CZ).covector(a) + 0 * b, [z23, w23])):
        add("vspace", tag, f, args, [0, 1], True)
    # the FFT family: real -> complex (explicit lengths, norms, axes: raise or be right) and complex -> complex
    for name, sh, kw in (("rfft", (4,), {}), ("rfft", (4,), {"n": 5}), ("rfft", (6,), {"n": 3}), ("rfft", (4,), {"n": 6}), ("rfft", (4,), {"n": 2}),
                         ("rfft", (5,), {"n": 4}), ("rfft", (4,), {"norm": "ortho"}), ("rfft", (4,), {"norm": "forward"}),
                         ("rfft", (3, 4), {"axis": 0}), ("rfft", (4, 3), {"axis": 0}), ("rfft2", (4, 4), {}), ("rfft2", (4, 4), {"s": (3, 3)}),
                         ("rfft2", (4, 4), {"s": (2, 6)}), ("rfftn", (4, 3), {"axes": (1, 0)}), ("rfftn", (2, 4), {"s": (2, 3)}),
                         ("fft", (4,), {}), ("fft", (4,), {"n": 6}), ("fft", (4,), {"n": 3}), ("fft", (2, 3), {"axis": 0}), ("ifft", (4,), {}),
                         ("fft2", (2, 3), {}), ("fftn", (2, 3), {"s": (3, 2)}), ("ifftn", (2, 2), {}), ("fftshift", (5,), {})):
        add("fft." + name, "real input shape=%s %s" % (sh, kw), (lambda m, a, name=name, kw=kw: getattr(m.fft, name)(a, **kw)), [distinct(rng, sh)], [0], False)
    for name, kw in (("fft", {}), ("fft", {"n": 4}), ("fft", {"n": 2}), ("ifft", {"norm": "ortho"}), ("fftshift", {}), ("ifftshift", {}),
                     ("irfft", {}), ("irfft", {"n": 4}), ("irfft", {"n": 5}), ("irfft", {"n": 6}), ("hfft_missing", {})):
        if hasattr(anp.fft, name):
            add("fft." + name, "complex input %s" % (kw,), (lambda m, a, name=name, kw=kw: getattr(m.fft, name)(a, **kw)), [gz[0]], [0], False)
    add("fft.fft2", "complex input", (lambda m, a: m.fft.fft2(a)), [gz], [0], False)
    add("fft.irfft2", "complex input", (lambda m, a: m.fft.irfft2(a)), [gz], [0], False)
    # linalg on complex matrices
    cm = gz[:, :2] + onp.array([[3.0, 0.5j], [-0.5j, 2.5]])
    herm = (cm + onp.conj(cm.T)) / 2 + 3 * onp.eye(2)
    cb = gw[:, :2]
    add("linalg.inv", "complex 2x2", (lambda m, a: m.linalg.inv(a)), [cm], [0], False)
    add("linalg.det", "complex 2x2", (lambda m, a: m.linalg.det(a)), [cm], [0], False)
    add("linalg.slogdet", "complex logabsdet", (lambda m, a: m.linalg.slogdet(a)[1]), [cm], [0], False)
    add("linalg.slogdet", "complex batch logabsdet", (lambda m, a: m.linalg.slogdet(a)[1]), [onp.stack([cm, cm * (1 + 0.5j) + onp.eye(2)])], [0], False)
    # (for a complex matrix the sign det/|det| moves with the matrix)
    add("linalg.slogdet", "complex sign", (lambda m, a: m.linalg.slogdet(a)[0]), [cm], [0], False)
    add("linalg.slogdet", "complex sign and logabsdet together", (lambda m, a: m.linalg.slogdet(a)[0] * (1.0 - 2.0j) + m.linalg.slogdet(a)[1]), [cm], [0], False)
    add("linalg.slogdet", "complex batch sign", (lambda m, a: m.linalg.slogdet(a)[0]), [onp.stack([cm, cm * (1 + 0.5j) + onp.eye(2)])], [0], False)
    add("linalg.solve", "complex", (lambda m, a, b: m.linalg.solve(a, b)), [cm, cb], [0, 1], False)
    add("linalg.solve", "complex matrix, real rhs", (lambda m, a, b: m.linalg.solve(a, b)), [cm, distinct(rng, (2, 2))], [0, 1], False)
    add("linalg.eigh", "Hermitian eigenvalues", (lambda m, a: m.linalg.eigh((a + m.conj(m.swapaxes(a, -1, -2))) / 2)[0]), [herm], [0], False)
    add("linalg.svd", "complex singular values", (lambda m, a: m.linalg.svd(a, compute_uv=False)), [gz], [0], False)
    add("linalg.cholesky", "Hermitian", (lambda m, a: m.linalg.cholesky((a + m.conj(m.swapaxes(a, -1, -2))) / 2)), [herm], [0], False)
    add("linalg.pinv", "complex", (lambda m, a: m.linalg.pinv(a)), [gz], [0], False)
    # decompositions with their vectors, through gauge-invariant functions of them (U diag(c) V^H, V diag(c) V^H), at generic
    # complex points and at complex-dtype points that happen to be real-valued (the cotangents stay complex there)
    cvec = onp.array([1.5, -0.5])
    sq = distinct(rng, (2, 2)) + onp.array([[2.0, 0.0], [0.0, -1.0]])
    tall = distinct(rng, (3, 2))
    for ptname, P, T in (("generic complex", cm, gz.T[:, :2] if gz.T.shape[1] >= 2 else cm), ("real-valued complex", sq + 0j, tall + 0j)):
        add("linalg.svd", "vectors, full_matrices=False, %s square" % ptname,
            (lambda m, a: (lambda u, s_, vh: m.matmul(u * cvec, vh))(*m.linalg.svd(a, full_matrices=False))), [P], [0], False)
        add("linalg.svd", "vectors, full_matrices=False, %s tall" % ptname,
            (lambda m, a: (lambda u, s_, vh: m.matmul(u * cvec, vh) * (1.0 + 2.0j))(*m.linalg.svd(a, full_matrices=False))), [T], [0], False)
        add("linalg.eigh", "vectors, %s" % ptname,
            (lambda m, a: (lambda w, v: m.matmul(v * cvec, m.conj(m.swapaxes(v, -1, -2))) * (2.0 - 1.0j))(
                *m.linalg.eigh((a + m.conj(m.swapaxes(a, -1, -2))) / 2))), [P], [0], False)
        add("linalg.inv", "%s" % ptname, (lambda m, a: m.linalg.inv(a) * (1.0 + 1.0j)), [P], [0], False)
        add("linalg.det", "%s" % ptname, (lambda m, a: m.linalg.det(a) * (1.0 + 1.0j)), [P], [0], False)
        add("linalg.solve", "%s" % ptname, (lambda m, a, b: m.linalg.solve(a, b)), [P, cb], [0, 1], False)
        add("linalg.pinv", "%s tall" % ptname, (lambda m, a: m.linalg.pinv(a) * (1.0 - 2.0j)), [T], [0], False)
        add("linalg.norm", "%s nuc" % ptname, (lambda m, a: m.linalg.norm(a, "nuc")), [T], [0], False)
    # complex arguments that are not double precision (complex64, clongdouble): small integers, so exact
    for cdt in (onp.complex64, onp.clongdouble):
        zs, ws = z23.astype(cdt), w23.astype(cdt)
        dn = onp.dtype(cdt).name
        # (real operands of the matching precision: NumPy's promotion of float64 against extended precision widens the
        #  float64 operand's gradient, which is a question of precision mixing, not of the kinds C05 / C09 speak about)
        rdt = onp.float64 if cdt is onp.complex64 else onp.longdouble
        for name in ("add", "subtract", "multiply"):
            add(name, "%s with real (3,) broadcast" % dn, (lambda m, a, b, name=name: getattr(m, name)(a, b)), [zs, iarr(rng, (3,)).astype(rdt)], [0, 1], True)
            add(name, "%s (3,) broadcast against %s (2,3)" % (dn, dn), (lambda m, a, b, name=name: getattr(m, name)(a, b)), [zs[0], ws], [0, 1], True)
            add(name, "%s scalar against real (2,3)" % dn, (lambda m, a, b, name=name: getattr(m, name)(a, b)), [cdt(2 - 1j), r23.astype(rdt)], [0, 1], True)
        add("matmul", "%s (2,3)@(3,2)" % dn, (lambda m, a, b: m.matmul(a, b)), [zs, w32.astype(cdt)], [0, 1], True)
        add("dot", "%s (3,)·(2,3)^T" % dn, (lambda m, a, b: m.dot(b, a)), [zs[0], ws], [0, 1], True)
        add("einsum", "%s ij,j->i" % dn, (lambda m, a, b: m.einsum("ij,j->i", a, b)), [zs, ws[0]], [0, 1], True)
        add("where", "%s branches, one broadcast" % dn, (lambda m, a, b: m.where(onp.array([True, False, True]), a, b)), [zs, ws[0]], [0, 1], True)
        add("sum", "%s axis=0" % dn, (lambda m, a: m.sum(a, axis=0)), [zs], [0], True)
        add("conj", "%s" % dn, (lambda m, a: m.conj(a) * (1 + 2j)), [zs], [0], True)
    add("diagonal", "complex, last two axes", (lambda m, a: m.diagonal(a, 0, -1, -2) * (1.0 + 2.0j)), [z23[:, :2]], [0], True)
    add("diagonal", "complex non-square, last two axes", (lambda m, a: m.diagonal(a, 0, -1, -2)), [z23], [0], True)
    add("diag", "complex matrix", (lambda m, a: m.diag(a)), [z23], [0], True)
    add("diag", "complex vector", (lambda m, a: m.diag(a)), [z3], [0], True)
    add("tril", "complex", (lambda m, a: m.tril(a)), [z23], [0], True)
    # einsum in both calling forms with a real operand against a complex one (the real operand's gradient is real)
    for form, fe in (("string", lambda m, a, b: m.einsum("ij,jk->ik", a, b)), ("operand", lambda m, a, b: m.einsum(a, [0, 1], b, [1, 2], [0, 2])),
                     ("operand implicit output", lambda m, a, b: m.einsum(a, [0, 1], b, [1, 2])),
                     ("operand with Ellipsis", lambda m, a, b: m.einsum(a, [Ellipsis, 1], b, [1, 2], [Ellipsis, 2]))):
        add("einsum", "%s form real (2,3) x complex (3,2)" % form, fe, [r23, w32], [0, 1], True)
        add("einsum", "%s form complex (2,3) x real (3,2)" % form, fe, [z23, iarr(rng, (3, 2))], [0, 1], True)
    add("tensordot", "real x complex", (lambda m, a, b: m.tensordot(a, b, 1)), [r23, w32], [0, 1], True)
    add("inner", "real x complex", (lambda m, a, b: m.inner(a, b)), [r23, z23], [0, 1], True)
    add("outer", "real x complex", (lambda m, a, b: m.outer(a, b)), [iarr(rng, (3,)), z3], [0, 1], True)
    add("kron", "real x complex", (lambda m, a, b: m.kron(a, b)), [iarr(rng, (2,)), z3], [0, 1], True)
    # a real entry / end point among complex ones: its gradient is real
    add("array", "[x, 1j] real scalar entry", (lambda m, a: m.array([a, 1j]) ** 2), [2.0], [0], False)
    add("array", "[x_vec, complex vec]", (lambda m, a: m.array([a, onp.array([1j, 2.0 - 1j, 0.5j])]) * (1.0 + 1.0j)), [iarr(rng, (3,))], [0], True)
    add("array", "nested [[x0, 1j], [2, x1]]", (lambda m, a: m.array([[a[0], 1j], [2.0, a[1]]]) * (2.0 - 1.0j)), [iarr(rng, (2,))], [0], True)
    add("array", "array(x, dtype=complex) of a real x", (lambda m, a: m.array(a, dtype=complex) * (1.0 + 2.0j)), [iarr(rng, (3,))], [0], True)
    add("array", "array(x, dtype=complex, ndmin=2) of a real x", (lambda m, a: m.array(a, dtype=complex, ndmin=2) * (1.0 + 2.0j)), [iarr(rng, (3,))], [0], True)
    add("astype", "real x .astype(complex)", (lambda m, a: a.astype(complex) * (1.0 + 2.0j)), [iarr(rng, (3,))], [0], True)
    add("multiply", "real x times complex constant", (lambda m, a: a * (1.0 + 2.0j)), [iarr(rng, (3,))], [0], True)
    add("linspace", "real start, complex stop", (lambda m, a: m.linspace(a, 1j, 3)), [2.0], [0], True)
    add("linspace", "complex start, real stop", (lambda m, a: m.linspace(1.0 - 2.0j, a, 4)), [3.0], [0], False)
    add("stack", "real piece among complex constants", (lambda m, a: m.stack([a, onp.array([1j, 2j, 3j])]) * (1.0 + 2.0j)), [iarr(rng, (3,))], [0], True)
    add("concatenate", "real piece among complex constants", (lambda m, a: m.concatenate([onp.array([1j]), a, onp.array([2.0 + 1j])]) * 1j), [iarr(rng, (3,))], [0], True)
    # real -> complex -> real through the real FFTs, for every spelling of the normalisation
    xr46 = distinct(rng, (4, 6))
    Kc = onp.fft.rfft2(distinct(rng, (4, 6), 0.7, 0.1))
    for nrm in (None, "backward", "ortho", "forward"):
        for rf, irf in (("rfft", "irfft"), ("rfft2", "irfft2"), ("rfftn", "irfftn")):
            add("fft." + rf, "real input, norm=%r" % (nrm,), (lambda m, z, rf=rf, nrm=nrm: getattr(m.fft, rf)(z, norm=nrm)), [xr46], [0], False)
            add("composite", "real->%s->*K->%s->sin, norm=%r" % (rf, irf, nrm),
                (lambda m, z, rf=rf, irf=irf, nrm=nrm: m.sin(getattr(m.fft, irf)(getattr(m.fft, rf)(z, norm=nrm) * (Kc if rf != "rfft" else Kc[0]), norm=nrm))), [xr46], [0], False)
    add("trace", "complex", (lambda m, a: m.trace(a)), [cm], [0], False)
    add("matmul", "complex chain", (lambda m, a, b: m.matmul(m.matmul(a, b), m.conj(a))), [cm, cb], [0, 1], False)
    # real -> complex -> real composite gets a real gradient equal to the purely real one
    add("composite", "real->fft->abs**2->sum", (lambda m, a: m.sum(m.abs(m.fft.fft(a)) ** 2)), [distinct(rng, (4,))], [0], False)
    add("composite", "real->complex-mul->real", (lambda m, a: m.real((a + 2j) * (1 - 1j) * a)), [distinct(rng, (3,))], [0], False)
    return out


def main():
    cfg = json.load(sys.stdin)
    rng = random.Random(cfg["seed"])
    props = set(cfg["props"])
    cs = cases(rng, cfg.get("tier", "quick")) if (props - {"C09"}) or cfg.get("real_for_c09") else []
    if cs:
        import impl_rules_extra
        cs = cs + impl_rules_extra.extra_cases(rng, cfg.get("tier", "quick"))
    if props & {"C09", "C05", "C04"}:
        cs = cs + complex_cases(rng, cfg.get("tier", "quick"))
        # the kind (real / complex) of a result is decided by the spaces involved, never by the VALUES that happen to be
        # there: the same rows with real-valued directions and cotangents, and (where every point is regular) at
        # complex-dtype points whose imaginary parts are all zero
        more = []
        for c in complex_cases(rng, cfg.get("tier", "quick")):
            c1 = Case(c.prim, c.tag + " [real-valued direction and cotangent]", c.f, c.args, c.diff, c.exact, modes=c.modes)
            c1.flat_im = True
            more.append(c1)
            if c.exact:
                c2 = Case(c.prim, c.tag + " [complex dtype, zero imaginary parts]", c.f,
                          [a.real + 0j if isinstance(a, onp.ndarray) and onp.iscomplexobj(a) else a for a in c.args], c.diff, True, modes=c.modes)
                more.append(c2)
        zc = iarr(rng, (4,), cplx=True)
        for tag, pt in (("genuinely complex point", zc), ("real-valued complex point", zc.real + 0j)):
            for fl in (False, True):
                c3 = Case("real_if_close", tag + (" real-valued direction" if fl else "") + " complex", (lambda m, z: m.real_if_close(z) * 2.0), [pt], [0], False)
                c3.flat_im, c3.pairing_only = fl, True     # (the kind of the result changes at such points: structure checks only)
                more.append(c3)
        cs = cs + more
    only = cfg.get("only")
    out = {"n": 0, "keys": [], "bad": [], "dist": {}, "raised": 0, "samples": []}
    for c in cs:
        if only and c.prim not in only:
            continue
        out["n"] += 1
        out["keys"].append(c.prim + "|" + c.tag)
        fam = c.prim.split(".")[0] if c.prim.startswith(("linalg", "fft", "method", "op")) else "numpy"
        out["dist"]["family=" + fam] = out["dist"].get("family=" + fam, 0) + 1
        out["dist"]["exact-oracle" if c.exact else "numeric-oracle"] = out["dist"].get("exact-oracle" if c.exact else "numeric-oracle", 0) + 1
        try:
            problems, stats = run_case(c, rng, props)
        except Exception as ex:
            problems, stats = [("harness", -1, "oracle could not evaluate the case: %r" % (ex,))], {"raised": 0}
        out["raised"] += stats["raised"]
        if len(out["samples"]) < 3:
            out["samples"].append({"primitive": c.prim, "configuration": c.tag,
                                   "arg_shapes": [list(onp.shape(a)) for a in c.args]})
        for (p, k, msg) in problems:
            if p in props or p == "harness":
                out["bad"].append({"property": p, "primitive": c.prim, "configuration": c.tag, "argnum": k, "what": msg,
                                   "args": [onp.asarray(a).tolist() if not onp.iscomplexobj(a) else str(onp.asarray(a).tolist()) for a in c.args],
                                   "site": {"primitive": c.prim, "property": p,
                                            "class": [t for t in ("axis<0", "len(reps)<ndim", "negative-axes", "ndim>2", "non-square",
                                                                  "scalar-branch", "array-fill", "broadcast", "extra-leading-dims",
                                                                  "complex") if t in c.tag][:1]}})
    # ---- second pass: a sample of the cases again, in another order, with the array arguments presented in
    #      other memory layouts (Fortran order, strided and reversed-stride views).  Same values, so the same verdicts:
    #      catches state carried from one call to the next and layout-dependent rules.
    def relayout(a):
        if not isinstance(a, onp.ndarray) or a.ndim == 0 or a.size == 0:
            return a
        r = rng.random()
        if a.ndim >= 2 and r < 0.35:
            return onp.asfortranarray(a)
        if r < 0.7:
            big = onp.zeros(tuple(2 * d for d in a.shape), dtype=a.dtype)
            sl = tuple(slice(None, None, 2) for _ in a.shape)
            big[sl] = a
            return big[sl]
        return onp.ascontiguousarray(a[::-1])[::-1]

    def record(c, problems, note):
        for (p, k, msg) in problems:
            if p in props or p == "harness":
                out["bad"].append({"property": p, "primitive": c.prim, "configuration": c.tag + " " + note, "argnum": k, "what": msg,
                                   "args": [str(onp.asarray(a).tolist()) for a in c.args],
                                   "site": {"primitive": c.prim, "property": p, "class": []}})
    clean = [c for c in cs if (not only or c.prim in only)]
    bad_keys = {(b["primitive"], b["configuration"]) for b in out["bad"]}
    clean = [c for c in clean if (c.prim, c.tag) not in bad_keys]
    # (order="A" makes the FUNCTION depend on the memory layout of its argument: such rows are not re-laid-out)
    clean = [c for c in clean if "order='A'" not in c.tag and "('A')" not in c.tag]
    frac2 = 0.5 if cfg.get("tier") == "thorough" else 0.15
    second = [c for c in clean if rng.random() < frac2]
    rng.shuffle(second)
    for c in second:
        c2 = Case(c.prim, c.tag, c.f, [relayout(a) for a in c.args], c.diff, c.exact, modes=c.modes, step=c.step)
        c2.pairing_only, c2.flat_im = c.pairing_only, c.flat_im
        out["dist"]["second-pass (other order, other layouts)"] = out["dist"].get("second-pass (other order, other layouts)", 0) + 1
        try:
            problems, _ = run_case(c2, rng, props)
        except Exception as ex:
            problems = [("harness", -1, "oracle could not evaluate the case: %r" % (ex,))]
        record(c, problems, "[second pass, other memory layout]")
    # ---- third pass: the differentiated argument reaches the primitive as the OUTPUT of other primitives (a doubly
    #      transposed / doubly reversed view, a sum with zero, a broadcast-and-slice) and the result leaves through an
    #      identity indexing: same function of the same point, so the same verdicts - catches rules that depend on how
    #      their input or cotangent was produced (views, memory order, owner) ----
    def pre_id(m, z, kind):
        if not hasattr(z, "shape") or getattr(z, "ndim", 0) == 0:
            return z + 0.0 if kind != 2 else z * 1.0
        if kind == 0:
            return m.swapaxes(m.swapaxes(z, 0, -1), 0, -1) if z.ndim >= 2 else z[::-1][::-1]
        if kind == 1:
            return (z + 0.0)[...]
        return m.reshape(m.reshape(z, (-1,))[::-1][::-1], z.shape)
    third = [c for c in clean if rng.random() < (0.4 if cfg.get("tier") == "thorough" else 0.12)]
    for c in third:
        kind_ = rng.randrange(3)

        def f3(m, *a, c=c, kind_=kind_):
            a = [pre_id(m, ai, kind_) if (i in c.diff and not isinstance(ai, (float, complex, int))) else ai for i, ai in enumerate(a)]
            y = c.f(m, *a)
            if isinstance(getattr(y, "_value", y), (tuple, list)):
                return y
            return y[...] if getattr(y, "ndim", 0) else y
        c3 = Case(c.prim, c.tag, f3, c.args, c.diff, c.exact, modes=c.modes, step=c.step)
        c3.pairing_only, c3.flat_im = c.pairing_only, c.flat_im
        out["dist"]["third-pass (argument produced by other primitives)"] = out["dist"].get("third-pass (argument produced by other primitives)", 0) + 1
        try:
            problems, _ = run_case(c3, rng, props)
        except Exception as ex:
            problems = [("harness", -1, "oracle could not evaluate the case: %r" % (ex,))]
        record(c, problems, "[third pass: argument and result pass through identity-valued primitives, kind %d]" % kind_)
    # ---- fourth pass: cotangents whose entries differ by many orders of magnitude, for the exactly linear rows.  A rule
    #      that is algebraically right but subtracts large numbers (sum(g) - cumsum(g), one-pass formulas) returns small
    #      entries that are garbage; each entry of J^T g is compared with the exactly rounded sum of ITS OWN terms ----
    import math
    from fractions import Fraction
    ALWAYS_WIDE = ("cumsum", "sum", "diff", "trace", "mean", "dot", "matmul", "tensordot", "einsum", "inner", "convolve", "gradient", "ediff1d", "trapezoid", "cumulative_sum")
    # (products of three or more operands are left out: a Jacobian entry that is zero by cancellation of the other operands
    #  legitimately leaves a rounding residue of the size of the largest cotangent entry)
    wide = [c for c in clean if c.exact and c.step == 1.0 and not c.pairing_only and "rev" in c.modes and len(c.args) <= 2
            and (c.prim in ALWAYS_WIDE
                 or rng.random() < (0.5 if cfg.get("tier") == "thorough" else 0.2))]
    for c in wide:
        for k in c.diff:
            x = c.args[k]
            xa = onp.asarray(x)
            if onp.iscomplexobj(xa) or xa.size == 0 or xa.size > 24:
                continue

            def fk_np(z, k=k, c=c):
                a_ = list(c.args)
                a_[k] = z
                return c.f(onp, *a_)

            def fk(z, k=k, c=c):
                a_ = list(c.args)
                a_[k] = z
                return c.f(anp, *a_)
            try:
                y0 = onp.asarray(fk_np(x))
                if onp.iscomplexobj(y0) or y0.size == 0 or y0.size > 40:
                    continue
                cols = [onp.asarray(fk_np(as_arg(x, d))) - y0 for d in directions(xa)]          # J e_i, exact
                # the size of each Jacobian entry BEFORE cancellation inside it (an entry that is a sum over the other operand,
                # e.g. a broadcast einsum, may vanish by cancellation and still leave a legitimate rounding residue)
                others = [a_ for j_, a_ in enumerate(c.args) if j_ != k]
                if others and all(isinstance(a_, (float, onp.ndarray)) and onp.asarray(a_).dtype.kind == "f" for a_ in others):
                    def fk_abs(z, k=k, c=c):
                        a_ = [onp.abs(t) for t in c.args]
                        a_[k] = z
                        return onp.asarray(c.f(onp, *a_))
                    y0a = fk_abs(x)
                    cols_abs = [onp.maximum(onp.abs(fk_abs(as_arg(x, d)) - y0a), onp.abs(cl)) for d, cl in zip(directions(xa), cols)]
                else:
                    cols_abs = [onp.abs(cl) for cl in cols]
                gws = [onp.array([rng.choice([-1.0, 1.0]) * 10.0 ** rng.choice([-17, -9, -3, 0, 0, 4, 11, 17]) for _ in range(y0.size)]).reshape(y0.shape)]
                if c.prim in ALWAYS_WIDE:      # deterministic patterns too: one huge entry first / last, magnitudes falling / rising along the flat order
                    idx_ = onp.arange(y0.size, dtype=float)
                    gws += [onp.where(idx_ == 0, 3.0e17, idx_ + 1.0).reshape(y0.shape), onp.where(idx_ == y0.size - 1, -3.0e17, idx_ + 1.0).reshape(y0.shape),
                            (10.0 ** (17 - 7 * (idx_ % 5)) * (1.0 + idx_)).reshape(y0.shape), (10.0 ** (-11 + 7 * (idx_ % 5)) * (1.0 + idx_)).reshape(y0.shape)]
                    gws += [onp.array([rng.choice([-1.0, 1.0]) * 10.0 ** rng.choice([-17, -9, -3, 0, 0, 4, 11, 17]) for _ in range(y0.size)]).reshape(y0.shape) for _ in range(3)]
                vjs = [onp.asarray(make_vjp(fk)(x)[0](gw if y0.shape else float(gw))) for gw in gws]
            except Exception:
                continue
            out["dist"]["fourth-pass (wide-range cotangent)"] = out["dist"].get("fourth-pass (wide-range cotangent)", 0) + len(gws)
            found = False
            for gw, vj in zip(gws, vjs):
                if vj.shape != xa.shape or found:
                    continue
                for i, col in enumerate(cols):
                    terms = [Fraction(float(a_)) * Fraction(float(b_)) for a_, b_ in zip(col.ravel(), gw.ravel()) if a_ != 0]
                    true = float(sum(terms)) if terms else 0.0
                    mass = float(sum(Fraction(float(a_)) * abs(Fraction(float(b_))) for a_, b_ in zip(cols_abs[i].ravel(), gw.ravel())))
                    got = float(vj.ravel()[i])
                    if not abs(got - true) <= 1e-9 * mass + 1e-300:
                        out["bad"].append({"property": "C01", "primitive": c.prim, "configuration": c.tag + " [cotangent entries spanning many orders of magnitude]",
                                           "argnum": k, "what": "entry %d of the VJP is %r, the exactly rounded J^T g entry is %r (its own terms have mass %r)" % (i, got, true, mass),
                                           "args": [str(onp.asarray(a).tolist()) for a in c.args], "g": gw.ravel().tolist(),
                                           "site": {"primitive": c.prim, "property": "C01", "class": []}} ) if "C01" in props else None
                        found = True
                        break
    # ---- operator pass (C05): the differential operators applied to functions whose output has ONE element but is not 0-d
    #      ((1,), (1,1), keepdims results, (1,n)@(n,1)): the result has the structure of the argument, or the call raises ----
    if "C05" in props and (not only or "operators" in only or True):
        from autograd import grad as _g5, value_and_grad as _vg5, elementwise_grad as _eg5, jacobian as _j5, make_vjp as _mv5
        from autograd.core import vspace as _vs5
        r5 = onp.random.RandomState(cfg["seed"] % (2 ** 31))
        A14 = onp.round(r5.uniform(-2, 2, (1, 4)) * 4) / 4
        ops5 = {"grad": lambda f, x: _g5(f)(x), "value_and_grad": lambda f, x: _vg5(f)(x)[1], "elementwise_grad": lambda f, x: _eg5(f)(x)}
        fs5 = [("matmul (1,n)@(n,1)", lambda X: anp.matmul(A14, X), onp.round(r5.uniform(-2, 2, (4, 1)) * 4) / 4),
               ("(A @ X).T", lambda X: (A14 @ X).T, onp.round(r5.uniform(-2, 2, (4, 1)) * 4) / 4),
               ("sum keepdims", lambda x: anp.sum(x * x, keepdims=True), onp.round(r5.uniform(-2, 2, (3, 2)) * 4) / 4),
               ("sum over axis of a (1,n) array, keepdims", lambda x: anp.sum(x * x, axis=1, keepdims=True), onp.round(r5.uniform(-2, 2, (1, 3)) * 4) / 4),
               ("reshape to (1,)", lambda x: anp.reshape(anp.sum(x * x), (1,)), onp.round(r5.uniform(-2, 2, (2, 2)) * 4) / 4),
               ("one-element slice", lambda x: x[1:2] * x[1:2], onp.round(r5.uniform(-2, 2, (3,)) * 4) / 4),
               ("0-d output", lambda x: anp.sum(x * x), onp.round(r5.uniform(-2, 2, (3, 2)) * 4) / 4),
               ("scalar argument, (1,1) output", lambda x: anp.reshape(x * x, (1, 1)), 1.5)]
        for fname, f5, x5 in fs5:
            try:
                y5 = f5(x5)
                want5 = onp.asarray(_mv5(f5)(x5)[0](onp.ones(onp.shape(y5)) if onp.shape(y5) else 1.0))
            except Exception:
                continue
            for oname, op5 in ops5.items():
                out["n"] += 1
                out["keys"].append("operator-on-size-1-output|%s|%s" % (oname, fname))
                out["dist"]["operator pass (size-1 outputs)"] = out["dist"].get("operator pass (size-1 outputs)", 0) + 1
                try:
                    got5 = op5(f5, x5)
                except Exception:
                    continue                                   # refusing a non-scalar output is allowed
                ok5 = _vs5(got5) == _vs5(x5) and onp.shape(got5) == onp.shape(x5) and bool(onp.all(onp.asarray(got5) == want5))
                if not ok5:
                    out["bad"].append({"property": "C05", "primitive": oname, "configuration": fname, "argnum": 0,
                                       "what": "%s of a function with a one-element output of shape %s returned %s for an argument of shape %s (expected the VJP against ones: %s)"
                                               % (oname, onp.shape(y5), onp.asarray(got5).tolist(), onp.shape(x5), want5.tolist()),
                                       "args": [str(onp.asarray(x5).tolist())], "site": {"primitive": oname, "property": "C05", "class": []}})
    # ---- concurrent pass (C20): the same verdicts when several cases run at once in different threads
    if cfg.get("threads"):
        import threading
        sample = [c for c in clean if rng.random() < (0.3 if cfg.get("tier") == "thorough" else 0.1)]
        results = {}

        def work(i, chunk):
            r2 = random.Random(cfg["seed"] * 31 + i)
            res = []
            for c in chunk:
                try:
                    res.append((c, run_case(c, r2, props | {"C01", "C02", "C04", "C05"})[0]))
                except Exception as ex:
                    res.append((c, [("C20", -1, "raised under concurrency only: %r" % (ex,))]))
            results[i] = res
        nthreads = 4
        for rep in range(3):
            ths = [threading.Thread(target=work, args=(i, sample[i::nthreads])) for i in range(nthreads)]
            for th in ths:
                th.start()
            for th in ths:
                th.join()
            for i in results:
                for c, problems in results[i]:
                    out["dist"]["concurrent-pass"] = out["dist"].get("concurrent-pass", 0) + 1
                    for (p, k, msg) in problems:
                        out["bad"].append({"property": "C20", "primitive": c.prim, "configuration": c.tag + " [4 threads at once]",
                                           "argnum": k, "what": "correct when run alone, under concurrency: " + msg,
                                           "args": [str(onp.asarray(a).tolist()) for a in c.args],
                                           "site": {"primitive": c.prim, "property": "C20", "class": []}})
    out["keys"] = sorted(set(out["keys"]))
    print(json.dumps(out, default=str))


if __name__ == "__main__":
    main()
