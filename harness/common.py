"""Shared machinery of the /verif checks: build, evaluation of the Coq model on
generated cases, audit, evidence, replays, known findings."""
import fcntl
import hashlib
import glob
import json
import os
import re
import subprocess
import sys
import time

ROOT = os.path.dirname(os.path.dirname(os.path.abspath(__file__)))
COQ = os.path.join(ROOT, "coq")
BUILD = os.path.join(ROOT, "build")
GEN = os.path.join(COQ, "gen")
REPO = os.environ.get("VERIF_REPO", "/repo")
PY = "/venv/bin/python"
NPROC = os.cpu_count() or 4

os.makedirs(BUILD, exist_ok=True)
os.makedirs(os.path.join(ROOT, "evidence"), exist_ok=True)
os.makedirs(os.path.join(ROOT, "replays"), exist_ok=True)


def sh(cmd, timeout=600, cwd=None, env=None, inp=None):
    """Run a command; returns (rc, stdout+stderr) with the conda WARNING noise removed."""
    e = dict(os.environ)
    if env:
        e.update(env)
    try:
        p = subprocess.run(
            cmd, shell=isinstance(cmd, str), cwd=cwd, env=e, input=inp,
            stdout=subprocess.PIPE, stderr=subprocess.STDOUT, timeout=timeout, text=True,
        )
        out, rc = p.stdout, p.returncode
    except subprocess.TimeoutExpired as ex:
        out = (ex.stdout or "")
        if isinstance(out, bytes):
            out = out.decode("utf-8", "replace")
        out += "\n[timeout after %ss]" % timeout
        rc = 124
    out = "\n".join(l for l in out.splitlines() if "WARNING conda" not in l)
    return rc, out


def impl_env():
    return {
        "PYTHONPATH": REPO, "PYTHONHASHSEED": "0", "HIPS_AUTOGRAD_VERIF": "1",
        "OMP_NUM_THREADS": "1", "OPENBLAS_NUM_THREADS": "1", "PYTHONWARNINGS": "ignore",
    }


def run_impl(script, payload, timeout=900):
    """Run harness/<script> under the implementation interpreter against /repo's
    working tree; JSON in on stdin, JSON out on the last line of stdout."""
    path = os.path.join(ROOT, "harness", script)
    try:
        p = subprocess.run(
            [PY, path], input=json.dumps(payload), env={**os.environ, **impl_env()},
            stdout=subprocess.PIPE, stderr=subprocess.PIPE, timeout=timeout, text=True, cwd=BUILD,
        )
    except subprocess.TimeoutExpired:
        return None, "timeout running %s" % script
    lines = [l for l in p.stdout.splitlines() if l.startswith("{") or l.startswith("[")]
    if p.returncode != 0 or not lines:
        return None, "rc=%s\nstdout:\n%s\nstderr:\n%s" % (p.returncode, p.stdout[-3000:], p.stderr[-6000:])
    try:
        return json.loads(lines[-1]), p.stderr[-2000:]
    except Exception as ex:  # noqa
        return None, "bad json from %s: %s" % (script, ex)


# ----------------------------------------------------------------- build ----
class Lock:
    def __enter__(self):
        self.f = open(os.path.join(BUILD, ".lock"), "w")
        fcntl.flock(self.f, fcntl.LOCK_EX)
        return self

    def __exit__(self, *a):
        fcntl.flock(self.f, fcntl.LOCK_UN)
        self.f.close()


def write_if_changed(path, text):
    try:
        if open(path).read() == text:
            return False
    except OSError:
        pass
    os.makedirs(os.path.dirname(path), exist_ok=True)
    with open(path, "w") as f:
        f.write(text)
    return True


def regen():
    """Regenerate coq/gen/*.v from /repo's current working tree (translators).
    Returns (ok, log)."""
    rc, out = sh([PY, os.path.join(ROOT, "harness", "translate.py"), GEN], timeout=300,
                 env=impl_env())
    return rc == 0, out


def coq_make(targets=None, timeout=1500):
    """Full .vo build (incremental) of the development; returns (ok, log)."""
    with Lock():
        mk = os.path.join(COQ, "Makefile")
        cp = os.path.join(COQ, "_CoqProject")
        if (not os.path.exists(mk)) or os.path.getmtime(mk) < os.path.getmtime(cp):
            rc, out = sh("coq_makefile -f _CoqProject -o Makefile", cwd=COQ, timeout=120)
            if rc != 0:
                return False, out
        tgt = " ".join(targets) if targets else ""
        rc, out = sh("make -j%d -k %s" % (NPROC, tgt), cwd=COQ, timeout=timeout)
        return rc == 0, out


def coqc_file(path, timeout=600, extra=""):
    """Compile one file outside the Makefile (case files, Props re-check)."""
    cmd = "coqc -q -Q %s AG -Q %s AGGen -w -all %s %s" % (
        os.path.join(COQ, "theories"), GEN, extra, path)
    return sh("ulimit -s unlimited 2>/dev/null; " + cmd, timeout=timeout, cwd=os.path.dirname(path))


def check_props(pid, timeout=900):
    """Re-compile Props/<pid>.v and return (ok, assumptions:list[str], n_theorems, log)."""
    src = os.path.join(COQ, "theories", "Props", pid + ".v")
    with Lock():
        rc, out = sh("make theories/Props/%s.vo" % pid, cwd=COQ, timeout=timeout)
        if rc != 0:
            return False, [], 0, out
        # re-run the property file itself to capture Print Assumptions output
        tmp = os.path.join(BUILD, "props")
        os.makedirs(tmp, exist_ok=True)
        dst = os.path.join(tmp, pid + "_recheck.v")
        with open(dst, "w") as f:
            f.write(open(src).read())
        rc, out = coqc_file(dst, timeout=timeout)
    if rc != 0:
        return False, [], 0, out
    axioms = set()
    for blk in re.split(r"\n(?=Closed under|Axioms:)", "\n" + out):
        if blk.strip().startswith("Axioms:"):
            for m in re.finditer(r"^([A-Za-z_][\w.']*)\s*:", blk, re.M):
                if m.group(1) != "Axioms":
                    axioms.add(m.group(1))
    nthm = len(re.findall(r"^\s*(Theorem|Corollary)\s", open(src).read(), re.M))
    return True, sorted(axioms), nthm, out


def coqchk_props(pid, timeout=900):
    """Independent re-check (coqchk) of Props/<pid>.vo and everything it depends on; returns (ok, axioms:list[str], log).
    Only used at the thorough tier and only for the properties whose theorems are closed under the global context (the
    Reals / Interval based ones take many minutes)."""
    with Lock():
        rc, out = sh("coqchk -silent -o -Q theories AG -Q gen AGGen AG.Props.%s" % pid, cwd=COQ, timeout=timeout)
    if rc != 0:
        return False, [], out
    axioms = []
    m = re.search(r"\* Axioms:(.*?)\n\s*\n\* Constants", out, re.S)
    if m and "<none>" not in m.group(1):
        axioms = [l.strip() for l in m.group(1).splitlines() if l.strip()]
    flags_ok = all(("%s: <none>" % k) in re.sub(r"\s+", " ", out) for k in
                   ("relying on type-in-type", "relying on unsafe (co)fixpoints", "whose positivity is assumed"))
    return flags_ok, axioms, out


ALLOWED_AXIOMS = {
    # declared by Coq's standard library (Reals / classical logic / funext)
    "ClassicalDedekindReals.sig_forall_dec", "ClassicalDedekindReals.sig_not_dec",
    "FunctionalExtensionality.functional_extensionality_dep", "Classical_Prop.classic",
    "functional_extensionality_dep", "classic", "sig_forall_dec", "sig_not_dec",
}

# Coq's primitive machine integers / floats (used by Interval); listed by Print Assumptions, not ours
PRIMITIVE_PREFIXES = ("FloatAxioms.", "Uint63Axioms.", "Uint63.", "PrimInt63.", "PrimFloat.", "Sint63.", "FloatOps.",
                      "SpecFloat.", "CarryType.", "PrimString.")

FORBIDDEN = re.compile(
    r"\b(Admitted|admit|Axiom|Axioms|Parameter|Parameters|Conjecture|Conjectures|"
    r"Admit Obligations|bypass_check|Unset Guard Checking|Unset Positivity Checking|"
    r"Unset Universe Checking|type-in-type|impredicative-set|native_compute)\b")


def strip_comments(src):
    out, depth, i = [], 0, 0
    while i < len(src):
        if src.startswith("(*", i):
            depth += 1
            i += 2
        elif src.startswith("*)", i) and depth:
            depth -= 1
            i += 2
        else:
            if not depth:
                out.append(src[i])
            i += 1
    return "".join(out)


def audit():
    """No Admitted/axioms/Parameters/disabled checks anywhere in the development;
    Variable/Hypothesis only inside sections."""
    problems = []
    files = []
    for d, _, fs in os.walk(COQ):
        for f in fs:
            if f.endswith(".v"):
                files.append(os.path.join(d, f))
    for p in sorted(files):
        src = strip_comments(open(p).read())
        for m in FORBIDDEN.finditer(src):
            problems.append("%s: forbidden token %r" % (os.path.relpath(p, ROOT), m.group(0)))
        depth = 0
        for line in src.splitlines():
            s = line.strip()
            if re.match(r"^(Section|Module)\s", s) and not re.search(r":=", s):
                depth += 1
            elif re.match(r"^End\s", s):
                depth -= 1
            elif depth <= 0 and re.match(r"^(Variable|Variables|Hypothesis|Hypotheses|Context)\b", s):
                problems.append("%s: %s outside a section" % (os.path.relpath(p, ROOT), s.split()[0]))
    for p in (os.path.join(COQ, "_CoqProject"),):
        if re.search(r"type-in-type|impredicative-set|-vos|-vok", open(p).read()):
            problems.append("_CoqProject: unsafe flag")
    return problems


def count_qed(files):
    n = 0
    for rel in files:
        p = os.path.join(COQ, "theories", rel)
        if os.path.exists(p):
            n += len(re.findall(r"\b(Qed|Defined)\.", strip_comments(open(p).read())))
    return n


def compiled(files):
    """How many of the given theory files have an up-to-date .vo."""
    ok = []
    for rel in files:
        p = os.path.join(COQ, "theories", rel)
        vo = p[:-2] + ".vo"
        if os.path.exists(vo) and os.path.getmtime(vo) >= os.path.getmtime(p):
            ok.append(rel)
    return ok


# ------------------------------------------------- evaluating the model ----
def coq_eval(name, imports, defs, cases, checker, shard=400, timeout=900):
    """Evaluate `checker` (a Coq function case -> nat) on every case term (Coq
    text) inside the assistant with vm_compute.  Returns list of codes (ints),
    or raises RuntimeError with the log."""
    d = os.path.join(BUILD, "cases")
    os.makedirs(d, exist_ok=True)
    name = "%s_p%d" % (name, os.getpid())        # several checks may run at the same time
    shards = [cases[i:i + shard] for i in range(0, len(cases), shard)]
    paths = []
    for si, sc in enumerate(shards):
        path = os.path.join(d, "%s_%d.v" % (name, si))
        with open(path, "w") as f:
            f.write(imports + "\n" + defs + "\n")
            f.write("Definition the_cases := [\n  " + ";\n  ".join(sc) + "\n].\n")
            f.write("Definition the_codes := Eval vm_compute in (map %s the_cases).\n" % checker)
            f.write('Redirect "%s_%d.out" Print the_codes.\n' % (name, si))
        paths.append(path)
    procs = []
    results = [None] * len(paths)
    idx = 0
    running = []
    env = dict(os.environ)

    def launch(i):
        cmd = "ulimit -s unlimited 2>/dev/null; exec coqc -q -Q %s AG -Q %s AGGen -w -all %s" % (
            os.path.join(COQ, "theories"), GEN, paths[i])
        return subprocess.Popen(cmd, shell=True, cwd=d, stdout=subprocess.PIPE,
                                stderr=subprocess.STDOUT, text=True, env=env)

    t0 = time.time()
    pending = list(range(len(paths)))
    while pending or running:
        while pending and len(running) < NPROC:
            i = pending.pop(0)
            running.append((i, launch(i)))
        for (i, p) in list(running):
            if p.poll() is not None:
                out = p.stdout.read()
                running.remove((i, p))
                if p.returncode != 0:
                    for (_, q) in running:
                        q.kill()
                    raise RuntimeError("coqc failed on %s:\n%s" % (paths[i], out[-4000:]))
                outp = os.path.join(d, "%s_%d.out.out" % (name, i))
                txt = open(outp).read()
                body = txt.split("=", 1)[1]
                body = body.rsplit(":", 1)[0]
                results[i] = [int(x) for x in re.findall(r"\d+", body)]
        if time.time() - t0 > timeout:
            for (_, q) in running:
                q.kill()
            raise RuntimeError("timeout evaluating model cases %s" % name)
        time.sleep(0.05)
    codes = []
    for i, r in enumerate(results):
        if len(r) != len(shards[i]):
            raise RuntimeError("case/result count mismatch in shard %d of %s: %d vs %d" % (
                i, name, len(r), len(shards[i])))
        codes.extend(r)
    for f in glob.glob(os.path.join(d, name + "_*")) + glob.glob(os.path.join(d, "." + name + "_*")):
        try:
            os.remove(f)
        except OSError:
            pass
    return codes


def coq_show(name, imports, defs, term, timeout=300):
    """Evaluate one term and return Coq's printed normal form (for replays)."""
    d = os.path.join(BUILD, "cases")
    os.makedirs(d, exist_ok=True)
    name = "%s_p%d" % (name, os.getpid())
    path = os.path.join(d, name + "_show.v")
    with open(path, "w") as f:
        f.write(imports + "\n" + defs + "\nEval vm_compute in (%s).\n" % term)
    rc, out = coqc_file(path, timeout=timeout)
    return out.strip()


# ---------------------------------------------------- Coq term printers ----
def cz(n):
    n = int(n)
    return "(%d)%%Z" % n


def cnat(n):
    return "%d%%nat" % int(n)


def clist(items):
    return "[" + "; ".join(items) + "]"


def cbool(b):
    return "true" if b else "false"


def copt(x):
    return "None" if x is None else "(Some %s)" % x


# -------------------------------------------------- results / evidence ----
class Result:
    """Accumulates what one check run covered and found."""

    def __init__(self, pid, tier, seed):
        self.pid, self.tier, self.seed = pid, tier, seed
        self.t0 = time.time()
        self.violations = []       # dicts: {kind, what, replay(obj), found_input(bool)}
        self.known = []
        self.evaluations = 0
        self.nontrivial = set()
        self.samples = []
        self.obligations = 0
        self.discharged = 0
        self.assumptions = []
        self.axioms = []
        self.notes = []
        self.distribution = {}
        self.rule = ""
        self.trusted = []

    def count(self, key, n=1):
        self.distribution[key] = self.distribution.get(key, 0) + n

    def add_cases(self, n, keys, samples=()):
        self.evaluations += n
        for k in keys:
            self.nontrivial.add(k)
        for s in samples:
            if len(self.samples) < 6:
                self.samples.append(s)

    def violation(self, what, replay, found_input, site=None):
        self.violations.append({"what": what, "replay": replay, "found_input": found_input,
                                "site": site or {}})


def load_known():
    p = os.path.join(ROOT, "known_findings.json")
    try:
        return json.load(open(p))
    except OSError:
        return {"findings": [], "fixed": []}


def match_known(pid, site):
    """A violation is a known finding iff an entry of known_findings.json for this
    property matches every key of its 'match' pattern against the violation's site."""
    for f in load_known().get("findings", []):
        if f.get("property") != pid:
            continue
        pat = f.get("match", {})
        if pat and all(site.get(k) == v for k, v in pat.items()):
            return f
    return None


def finish(res, level="proof", checker_cmd="", extra_cov=None):
    """Apply known findings, write replays + evidence, print VIOLATION lines, exit."""
    pid = res.pid
    real = []
    printed_known = set()
    for v in res.violations:
        k = match_known(pid, v["site"]) if v["found_input"] else None
        if k:
            key = k.get("id", k.get("what"))
            if key not in printed_known:
                print("KNOWN-FINDING: property=%s %s" % (pid, k["what"]))
                printed_known.add(key)
            res.known.append(key)
        else:
            real.append(v)
    lines = []
    import glob
    for old in glob.glob(os.path.join(ROOT, "replays", pid + "-*.json")):
        os.remove(old)                 # replays of earlier runs of this check are stale
    for v in real:
        blob = json.dumps(v["replay"], sort_keys=True, default=str)
        h = hashlib.sha1(blob.encode()).hexdigest()[:10]
        path = os.path.join(ROOT, "replays", "%s-%s.json" % (pid, h))
        with open(path, "w") as f:
            json.dump({"property": pid, "what": v["what"], "site": v["site"],
                       "found_failing_input": v["found_input"], "replay": v["replay"],
                       "seed": res.seed, "tier": res.tier,
                       "how_to_rerun": "cd /verif && ./check %s --replay %s" % (pid, path)},
                      f, indent=1, default=str)
        line = "VIOLATION property=%s replay=%s" % (pid, path)
        if not v["found_input"]:
            line += " no-failing-input-found"
        lines.append(line)
    cov = {
        "obligations": res.obligations, "discharged": res.discharged,
        "checker_cmd": (checker_cmd or "coqc (Coq 8.16.1 kernel; vm_compute) via `make` in /verif/coq and ./check %s" % pid)
        + ("; re-checked by coqchk -o (independent checker) on AG.Props.%s" % pid if any("coqchk" in n and ": ok" in n for n in res.notes) else ""),
        "trusted_base": res.trusted,
        "evaluations": res.evaluations, "distinct_nontrivial": len(res.nontrivial),
        "rule": res.rule, "samples": res.samples[:6] or ["(no generated cases in this run)"],
        "input_distribution": res.distribution,
        "axioms_reported_by_Print_Assumptions": res.axioms,
        "known_findings_matched": sorted(set(res.known)),
        "notes": res.notes,
    }
    if extra_cov:
        cov.update(extra_cov)
    ev = {
        "property_id": pid, "tier": res.tier, "seed": res.seed, "level": level,
        "coverage": cov, "assumptions": res.assumptions,
        "wall_s": round(time.time() - res.t0, 2), "violations": len(real),
    }
    with open(os.path.join(ROOT, "evidence", pid + ".json"), "w") as f:
        json.dump(ev, f, indent=1, default=str)
    for l in lines:
        print(l)
    sys.stdout.flush()
    sys.exit(1 if lines else 0)


BASE_TRUST = [
    "Coq 8.16.1 kernel and vm_compute (no native_compute)",
    "the correspondence harness (harness/*.py): case generators, Coq term printers, result parsing",
    "CPython 3.12 / NumPy semantics on the implementation side",
    "the model is hand-written Gallina; only the behaviours exercised by the correspondence run are tied to /repo",
]


def decide(res, broken, tie_cases, bad_cases, hunt, describe, site_of=lambda c: {}):
    """Common decision logic.  bad_cases: concrete inputs on which the property
    itself fails on the implementation; tie_cases: inputs on which model and
    implementation differ although the property holds there; broken: proof
    obligations that no longer check.  hunt() searches further and returns more
    bad cases."""
    if not bad_cases and (broken or tie_cases):
        res.notes.append("proof/tie broken (%d obligations, %d disagreeing cases): hunting for a failing input"
                         % (len(broken), len(tie_cases)))
        try:
            bad_cases = hunt() or []
        except Exception as ex:  # noqa
            res.notes.append("hunt failed: %r" % (ex,))
            bad_cases = []
    if bad_cases:
        seen = set()
        for c in bad_cases:
            site = site_of(c)
            key = json.dumps(site, sort_keys=True)
            if key in seen:
                continue
            seen.add(key)
            res.violation(describe(c), c, True, site)
            if len(res.violations) >= 8:
                break
        if not (broken or tie_cases):
            return
        # all concrete failures known?  then the breakage is explained by them
        return
    if broken or tie_cases:
        res.violation(
            "no longer shown to hold: " + "; ".join(
                [b.get("obligation", "?") for b in broken] +
                (["correspondence model<->implementation differs on %d case(s)" % len(tie_cases)]
                 if tie_cases else [])),
            {"broken_obligations": broken, "disagreeing_cases": tie_cases[:3]}, False)
