"""Implementation-only part of C06: autograd.numpy's re-implemented wrappers and a
sample of exported functions agree with NumPy on values, shape, dtype and result
structure, both on plain inputs and as primal values under tracing; inputs are
left unmodified; results handed back by the operators contain no tracer objects."""
import json
import random
import sys
import warnings

import numpy as onp
import autograd.numpy as anp
from autograd import make_vjp, make_jvp, grad, value_and_grad
from autograd.tracer import isbox

warnings.simplefilter("ignore")


def arr(rng, shape):
    n = int(onp.prod(shape)) if shape else 1
    return onp.array([float(rng.randint(-4, 4)) for _ in range(n)]).reshape(shape)


def same(a, b):
    if isinstance(a, (tuple, list)):
        return type(a) is type(b) and len(a) == len(b) and all(same(x, y) for x, y in zip(a, b))
    if isbox(a):
        return False
    aa, bb = onp.asarray(a), onp.asarray(b)
    # (a NumPy scalar and a 0-d array are different kinds of value: hashable / immutable versus not)
    return isinstance(a, onp.ndarray) == isinstance(b, onp.ndarray) and aa.shape == bb.shape and aa.dtype == bb.dtype \
        and bool(onp.array_equal(aa, bb, equal_nan=True)) and same_zero_signs(aa, bb)


def same_zero_signs(aa, bb):
    """-0.0 and +0.0 are different values (1/x tells them apart): zeros carry the same sign in both"""
    if aa.dtype.kind == "c":
        return same_zero_signs(aa.real, bb.real) and same_zero_signs(aa.imag, bb.imag)
    if aa.dtype.kind != "f":
        return True
    z = aa == 0
    return bool(onp.array_equal(onp.signbit(aa[z]), onp.signbit(bb[z])))


def templates(rng):
    """(name, f(np, x) using module np, x0).  x is the differentiated array."""
    T = []
    s2 = (rng.choice([1, 2, 3]), rng.choice([1, 2, 3]))
    a2, b2 = arr(rng, s2), arr(rng, s2)
    v3, w3 = arr(rng, (3,)), arr(rng, (3,))
    nz3 = onp.array([-0.0, 1.5, -0.0])
    a23 = onp.arange(6.0).reshape(2, 3) + arr(rng, (2, 3)) * 10.0
    T += [("concatenate-0", lambda m, x: m.concatenate([x, b2], axis=0), a2),
          ("concatenate-1", lambda m, x: m.concatenate((b2, x), axis=1), a2),
          ("concatenate--1", lambda m, x: m.concatenate((b2, x, x), axis=-1), a2),
          ("vstack", lambda m, x: m.vstack([x, b2]), a2),
          ("vstack-1d", lambda m, x: m.vstack((x, w3)), v3),
          ("hstack", lambda m, x: m.hstack([x, b2]), a2),
          ("hstack-1d", lambda m, x: m.hstack((x, w3)), v3),
          ("column_stack", lambda m, x: m.column_stack([x, w3]), v3),
          ("column_stack-2d", lambda m, x: m.column_stack([x, b2]), a2),
          ("stack-0", lambda m, x: m.stack([x, b2]), a2),
          ("stack-1", lambda m, x: m.stack((x, b2, x), axis=1), a2),
          ("stack--1", lambda m, x: m.stack((x, b2), axis=-1), a2),
          ("concatenate-one-block", lambda m, x: m.concatenate([x], axis=0), a2),
          ("concatenate-one-block-axis-None", lambda m, x: m.concatenate([x], axis=None), a2, True),
          ("concatenate-one-block-last-axis", lambda m, x: m.concatenate((x,), axis=-1), a2),
          ("concatenate-axis-None", lambda m, x: m.concatenate([x, b2], axis=None), a2, True),
          ("vstack-one-block", lambda m, x: m.vstack([x]), a2),
          ("hstack-one-block", lambda m, x: m.hstack([x]), v3),
          ("stack-one-block", lambda m, x: m.stack([x]), a2),
          ("column_stack-one-block", lambda m, x: m.column_stack([x]), v3),
          ("append-nothing", lambda m, x: m.append(x, []), v3),
          ("vstack-of-a-3d-array", lambda m, x: m.vstack(m.reshape(x, (2, 3, 1)) * onp.ones((2, 3, 4))), a23),
          ("hstack-of-a-3d-array", lambda m, x: m.hstack(m.reshape(x, (2, 3, 1)) * onp.ones((2, 3, 4))), a23),
          ("vstack-of-a-2d-array", lambda m, x: m.vstack(x), a23),
          ("hstack-of-a-2d-array", lambda m, x: m.hstack(x), a23),
          ("column_stack-of-a-2d-array", lambda m, x: m.column_stack(x), a23),
          ("stack-of-a-2d-array", lambda m, x: m.stack(x, axis=1), a23),
          ("concatenate-of-a-3d-array", lambda m, x: m.concatenate(m.reshape(x, (2, 3, 1)) * onp.ones((2, 3, 4)), axis=1), a23),
          ("array-copy", lambda m, x: m.array(x), a2),
          ("array-copy-then-edit", lambda m, x: (lambda c: (c.__setitem__((0, 0), 7.5), c * 1.0)[1])(m.array(a2)) + 0.0 * x, a2),
          ("asarray-is-no-copy", lambda m, x: m.asarray(x) * 1.0, a2, True),
          ("array-copy-kw", lambda m, x: m.array(x, copy=True), a2, True),
          ("copy", lambda m, x: m.copy(x), a2, True),
          ("append", lambda m, x: m.append(x, b2), a2),
          ("append-axis0", lambda m, x: m.append(x, b2, axis=0), a2),
          ("array-nested", lambda m, x: m.array([[x[0], 1.0], [2.0, x[1]]]), v3),
          ("array-of-arrays", lambda m, x: m.array([x, w3]), v3),
          ("array-scalar", lambda m, x: m.array(x[0]), v3),
          ("select", lambda m, x: m.select([x > 0, x < 0], [x, -x * 2], default=7.0), v3),
          ("select-overlapping", lambda m, x: m.select([x > -10.0, x > 0.0, x > 1.0], [x, x * 2.0, x * 3.0], default=7.0), v3),
          ("select-overlapping-reversed", lambda m, x: m.select([x > 1.0, x > 0.0, x > -10.0], [x * 3.0, x * 2.0, x], default=7.0), v3),
          ("select-all-false", lambda m, x: m.select([x > 100.0, x < -100.0], [x, -x], default=7.0), v3),
          ("piecewise-like where chain", lambda m, x: m.where(x > 1.0, x * 3.0, m.where(x > 0.0, x * 2.0, x)), v3),
          ("r_", lambda m, x: m.r_[x, 1.0, w3], v3),
          ("c_", lambda m, x: m.c_[x, w3], v3),
          ("reshape-method", lambda m, x: x.reshape(-1), a2),
          ("reshape-method-tuple", lambda m, x: x.reshape((s2[1], s2[0])), a2),
          ("reshape-method-ints-order-F", lambda m, x: x.reshape(3, 2, order="F"), a23),
          ("reshape-method-tuple-order-F", lambda m, x: x.reshape((3, 2), order="F"), a23),
          ("reshape-function-order-F", lambda m, x: m.reshape(x, (3, 2), order="F"), a23),
          ("reshape-method-ints-order-C", lambda m, x: x.reshape(3, 2, order="C"), a23),
          ("ravel-order-F", lambda m, x: m.ravel(x, order="F"), a23),
          ("ravel-method-order-F", lambda m, x: x.ravel(order="F"), a23),
          ("flatten-method-order-F", lambda m, x: x.flatten("F"), a23),
          ("transpose-method-tuple", lambda m, x: x.transpose((1, 0)), a2),
          ("sum-method-positional-axis", lambda m, x: x.sum(0), a2),
          ("clip-method-keywords", lambda m, x: x.clip(min=-1.0, max=2.0), a2, True),
          ("astype-method", lambda m, x: x.astype(float), a2),
          ("astype of an entry (a NumPy scalar)", lambda m, x: x[0, 0].astype(onp.float32), a2),
          ("astype(float) of an entry", lambda m, x: x[-1, -1].astype(float) * 2.0, a2),
          ("sum then astype(float32)", lambda m, x: m.sum(x).astype(onp.float32), a2),
          ("entry arithmetic stays a scalar", lambda m, x: x[0, 0] * 2.0 + x[-1, -1], a2),
          ("0-d slice stays an array", lambda m, x: x[0, 0, ...] * 2.0, a2),
          ("ravel", lambda m, x: m.ravel(x), a2),
          ("transpose-T", lambda m, x: x.T, a2),
          ("sum-axis", lambda m, x: m.sum(x, axis=-1, keepdims=True), a2),
          ("mean", lambda m, x: m.mean(x, axis=0), a2),
          ("dot", lambda m, x: m.dot(x, b2.T), a2),
          ("matmul-op", lambda m, x: x @ b2.T, a2),
          ("where", lambda m, x: m.where(x > 0, x, 2.0), a2),
          ("maximum", lambda m, x: m.maximum(x, b2), a2),
          ("clip", lambda m, x: m.clip(x, -1.0, 2.0), a2),
          ("abs", lambda m, x: m.abs(x), a2),
          ("square-sum", lambda m, x: m.sum(m.square(x)), a2),
          ("getitem", lambda m, x: x[::-1, 0], a2),
          ("getitem-list", lambda m, x: x[[0, 0, 2]], v3),
          ("tile", lambda m, x: m.tile(x, (2, 1)), a2),
          ("repeat", lambda m, x: m.repeat(x, 2, axis=0), a2),
          ("pad", lambda m, x: m.pad(x, 1, mode="constant"), a2),
          ("split", lambda m, x: m.split(x, 3), v3),
          ("atleast_2d", lambda m, x: m.atleast_2d(x), v3),
          ("tensordot", lambda m, x: m.tensordot(x, b2, axes=([0, 1], [0, 1])), a2),
          ("outer", lambda m, x: m.outer(x, w3), v3),
          ("cumsum", lambda m, x: m.cumsum(x, axis=1), a2),
          ("diag", lambda m, x: m.diag(x), v3),
          ("trace", lambda m, x: m.trace(x), a2),
          ("astype", lambda m, x: x.astype(onp.float32), a2),
          ("pow-op", lambda m, x: x ** 2, a2),
          ("rsub-op", lambda m, x: 3.0 - x, a2),
          ("neg-op", lambda m, x: -x, a2),
          ("floor", lambda m, x: m.floor(x / 2), a2)]
    # option-bearing forms of the re-implemented wrappers: the value must be NumPy's, or the call must raise
    m3 = arr(rng, (2, 3))
    O = [("array-ndmin2", lambda m, x: m.array([x[0], 2 * x[1], 1.0], ndmin=2), v3),
         ("array-ndmin1", lambda m, x: m.array([x[0], x[1]], ndmin=1), v3),
         ("array-nested-ndmin3", lambda m, x: m.array([[x[0], 1.0], [x[1], 2.0]], ndmin=3), v3),
         ("array-of-arrays-ndmin3", lambda m, x: m.array([x, w3], ndmin=3), v3),
         ("array-plain-ndmin2", lambda m, x: m.array(x, ndmin=2), v3),
         ("array-dtype32", lambda m, x: m.array([x[0], x[1]], dtype=onp.float32), v3),
         ("array-dtype-positional", lambda m, x: m.array([x[0], x[1]], onp.float64), v3),
         ("array-copy", lambda m, x: m.array([x, w3], copy=True), v3),
         ("array-orderF", lambda m, x: m.array([x, w3], order="F"), v3),
         ("array-tuple", lambda m, x: m.array((x[0], (x[1]), 3.0)), v3),
         ("array-tuple-nested", lambda m, x: m.array(((x[0], 1.0), (2.0, x[2]))), v3),
         ("array-empty-list-mix", lambda m, x: m.array([x[:0], x[:0]]), v3),
         ("concatenate-axisNone", lambda m, x: m.concatenate([x, m3], axis=None), m3 * 2),
         ("concatenate-tuple-axis-kw", lambda m, x: m.concatenate((x, m3), axis=-2), m3 * 2),
         ("concatenate-scalars-in-list", lambda m, x: m.concatenate([x, [1.0, 2.0]]), v3),
         ("vstack-scalars", lambda m, x: m.vstack([x[0], x[1], 3.0]), v3),
         ("hstack-scalars", lambda m, x: m.hstack([x[0], x[1], 3.0]), v3),
         ("hstack-mixed-rank", lambda m, x: m.hstack([x, 4.0]), v3),
         ("column_stack-scalars", lambda m, x: m.column_stack([x[0], x[1]]), v3),
         ("column_stack-mixed", lambda m, x: m.column_stack([x, m.stack([w3, x], axis=1)]), v3),
         ("row_stack", lambda m, x: (m.row_stack if hasattr(m, "row_stack") else m.vstack)([x, w3]), v3),
         # (dstack/block/meshgrid take a plain list and are not re-implemented: a list holding traced values is
         #  documented as opaque to autograd, so they are outside the property)
         ("stack-axis-2", lambda m, x: m.stack([x, m3], axis=2), m3 * 2),
         ("stack-axis--3", lambda m, x: m.stack([x, m3], axis=-3), m3 * 2),
         ("stack-lists", lambda m, x: m.stack([[x[0], 1.0], [2.0, x[1]]]), v3),
         ("stack-scalars", lambda m, x: m.stack([x[0], x[1], 1.0]), v3),
         ("append-scalar", lambda m, x: m.append(x, 5.0), v3),
         ("append-2d-flat", lambda m, x: m.append(x, [1.0, 2.0]), m3),
         ("append-axis1", lambda m, x: m.append(x, m3[:, :1], axis=1), m3 * 2),
         ("append-axis--1", lambda m, x: m.append(x, m3, axis=-1), m3 * 2),
         ("append-list-first", lambda m, x: m.append([1.0, 2.0], x), v3),
         ("select-default-0", lambda m, x: m.select([x > 1, x < -1], [x, -x]), v3),
         # operators next to their neutral elements, on data with negative zeros (0 + (-0.0) is +0.0, (-0.0) * 1 is -0.0, ...)
         ("int-zero-radd", lambda m, x: 0 + x, nz3), ("int-zero-add", lambda m, x: x + 0, nz3), ("float-zero-radd", lambda m, x: 0.0 + x, nz3),
         ("builtin-sum-of-two", lambda m, x: sum([x, x]), nz3), ("builtin-sum-of-one", lambda m, x: sum([x]), nz3),
         ("builtin-sum-of-entries", lambda m, x: sum(x[i] for i in range(3)), nz3), ("builtin-sum-start", lambda m, x: sum([x, x], x), nz3),
         ("int-one-rmul", lambda m, x: 1 * x, nz3), ("int-one-mul", lambda m, x: x * 1, nz3), ("int-one-div", lambda m, x: x / 1, nz3),
         ("int-zero-sub", lambda m, x: x - 0, nz3), ("int-zero-rsub", lambda m, x: 0 - x, nz3), ("neg", lambda m, x: -x, nz3),
         ("pow-one", lambda m, x: x ** 1, nz3), ("np-sum", lambda m, x: m.sum(x[:1]), nz3), ("np-add-zero", lambda m, x: m.add(0, x), nz3),
         ("mul-neg-zero", lambda m, x: x * -0.0, nz3), ("abs", lambda m, x: m.abs(x), nz3), ("sqrt-of-neg-zero", lambda m, x: m.sqrt(x[:1]), nz3),
         ("select-traced-default-constant-choices", lambda m, x: m.select([w3 > 1.0, w3 < -1.0], [w3 * 2.0, w3 * 3.0], default=x[0]), v3),
         ("select-traced-array-default", lambda m, x: m.select([w3 > 100.0], [w3], default=x), v3),
         ("select-choice-as-list-of-traced-scalars", lambda m, x: m.select([w3 > 0.0, w3 <= 0.0], [[x[0], 2 * x[0], 3 * x[1]], w3], default=0.0), v3),
         ("select-untraced-conditions-traced-default-kw", lambda m, x: m.select(condlist=[w3 > 0.0], choicelist=[w3], default=x[1] * 2.0), v3),
         ("select-2d", lambda m, x: m.select([x > 0, x <= 0], [x * 2, x * x], default=-1.5), m3),
         ("select-tuple-args", lambda m, x: m.select((x > 0,), (x,), 3.0), v3),
         ("select-broadcast", lambda m, x: m.select([x > 0], [x[:1] * onp.ones(3)], default=0.5), v3),
         ("r_-scalars", lambda m, x: m.r_[x[0], 2.0, x[1]], v3),
         ("r_-slice", lambda m, x: m.r_[x, 0:3], v3),
         ("r_-string-r", lambda m, x: m.r_["0,2", x, w3], v3),
         ("r_-string-1", lambda m, x: m.r_["1,2,0", x, w3], v3),
         ("r_-2d-axis", lambda m, x: m.r_["-1", x, m3], m3 * 2),
         ("c_-2d", lambda m, x: m.c_[x, m3], m3 * 2),
         ("c_-scalars", lambda m, x: m.c_[x[0], x[1]], v3),
         ("reshape-order-F", lambda m, x: x.reshape((3, 2), order="F"), m3),
         ("reshape-varargs", lambda m, x: x.reshape(3, 2), m3),
         ("reshape-fn-order-F", lambda m, x: m.reshape(x, (3, 2), order="F"), m3),
         ("ravel-method-order-F", lambda m, x: x.ravel(order="F"), m3),
         ("flatten-method", lambda m, x: x.flatten(), m3),
         ("squeeze-method", lambda m, x: x[None].squeeze(0), m3),
         ("swapaxes-method", lambda m, x: x.swapaxes(0, 1), m3),
         ("transpose-method-args", lambda m, x: x.transpose(1, 0), m3),
         ("sum-method-kw", lambda m, x: x.sum(axis=1, keepdims=True), m3),
         ("mean-method", lambda m, x: x.mean(0), m3),
         ("max-method", lambda m, x: x.max(axis=1), m3),
         ("cumsum-method", lambda m, x: x.cumsum(axis=1), m3),
         ("clip-method", lambda m, x: x.clip(-1.0, 2.0), m3),
         ("dot-method", lambda m, x: x.dot(m3.T), m3 * 2),
         ("diagonal-method", lambda m, x: x.diagonal(), m3),
         ("repeat-method", lambda m, x: x.repeat(2, axis=1), m3),
         ("take-method", lambda m, x: x.take([0, 2], axis=1), m3),
         ("std-method", lambda m, x: x.std(axis=0), m3 * 2 + onp.arange(6.0).reshape(2, 3)),
         ("len-shape-ndim-size", lambda m, x: m.array([float(len(x)), float(x.ndim), float(x.size), float(x.shape[-1])]), m3),
         ("iter", lambda m, x: m.stack([row * 2 for row in x]), m3),
         ("abs-builtin", lambda m, x: abs(x), m3),
         ("divmod-ops", lambda m, x: (x % 3.0) + (x // 2.0 if False else x / 2.0), m3),
         ("comparisons", lambda m, x: m.where((x >= 0) & (x != 2), x, -x), m3),
         ("atleast_3d", lambda m, x: m.atleast_3d(x), m3),
         ("array_split", lambda m, x: m.array_split(x, 2, axis=1), m3),
         ("hsplit", lambda m, x: m.hsplit(x, 3), m3),
         ("vsplit", lambda m, x: m.vsplit(x, 2), m3),
         ("moveaxis", lambda m, x: m.moveaxis(x, 0, -1), m3),
         ("full_like", lambda m, x: m.full_like(x, 3.5), m3),
         ("zeros_like", lambda m, x: m.zeros_like(x), m3),
         ("ones_like", lambda m, x: m.ones_like(x), m3),
         ("full", lambda m, x: m.full((2, 2), x[0]), v3),
         ("einsum", lambda m, x: m.einsum("ij,kj->ik", x, m3), m3 * 2),
         ("sort", lambda m, x: m.sort(x), v3 + onp.array([0.0, 0.25, 0.5])),
         ("linalg-norm", lambda m, x: m.linalg.norm(x + 0.5), m3),
         ("fft", lambda m, x: m.fft.fft(x), v3),
         ("var-ddof", lambda m, x: m.var(x, axis=1, ddof=1), m3 * 2 + onp.arange(6.0).reshape(2, 3))]
    T += [(n_, f_, x_, True) for n_, f_, x_ in O]
    return [t if len(t) == 4 else t + (False,) for t in T]


def container_values(out, rng):
    """functions of dict / list / tuple arguments whose VALUE depends on the order in which the container is walked"""
    from autograd import value_and_grad
    from autograd.core import make_vjp as cvjp
    # comparisons of a traced container with a plain one steer control flow: the branch taken under differentiation is the
    # branch taken on the plain value (reverse, forward and nested)
    from autograd import make_jvp as _mj6, grad as _g6
    cmp_cases = [("tuple == tuple (equal)", (1.0, 2.0), lambda t: t[0] * 3.0 if t == (1.0, 2.0) else t[0] * 100.0),
                 ("tuple == tuple (different)", (1.0, 2.5), lambda t: t[0] * 3.0 if t == (1.0, 2.0) else t[0] * 100.0),
                 ("list != list", [1.0, 2.0], lambda t: t[0] * 3.0 if t != [1.0, 2.0] else t[1] * 100.0),
                 ("dict == dict", {"a": 1.0, "b": 2.0}, lambda d: d["a"] * 3.0 if d == {"a": 1.0, "b": 2.0} else d["a"] * 100.0),
                 ("dict != dict (other keys)", {"a": 1.0, "b": 2.0}, lambda d: d["a"] * 3.0 if d != {"a": 1.0, "c": 2.0} else d["b"] * 100.0),
                 ("nested tuple == nested tuple", (1.0, (2.0, 3.0)), lambda t: t[0] * 3.0 if t == (1.0, (2.0, 3.0)) else t[0] * 100.0),
                 ("tuple in list of tuples", (1.0, 2.0), lambda t: t[1] * 3.0 if t in [(0.0, 0.0), (1.0, 2.0)] else t[1] * 100.0)]
    for nm, x0, f in cmp_cases:
        out["n"] += 1
        out["keys"].append("container-comparison/%s" % nm)
        out["dist"]["container-comparison-cases"] = out["dist"].get("container-comparison-cases", 0) + 1
        try:
            plain = float(f(x0))
            vals = {"reverse": float(cvjp(f, x0)[1])}
            try:
                tang = type(x0)((1.0,) * len(x0)) if not isinstance(x0, dict) else {k: 1.0 for k in x0}
                if not any(isinstance(v, tuple) for v in (x0.values() if isinstance(x0, dict) else x0)):
                    vals["forward"] = float(_mj6(f)(x0)(tang)[0])
            except NotImplementedError:
                pass
            vals["nested"] = float(_g6(lambda s: cvjp(lambda c: f(c) * s, x0)[1])(1.0) * 0.0 + cvjp(f, x0)[1])
            wrong = {k: v for k, v in vals.items() if v != plain}
            if wrong:
                out["bad"].append({"oracle": "container-comparison", "case": nm, "problems": ["plain value %r, under differentiation %r" % (plain, wrong)],
                                   "site": {"wrapper": "container comparison"}})
        except Exception as ex:
            out["bad"].append({"oracle": "container-comparison", "case": nm, "problems": ["raised: %r" % (ex,)], "site": {"wrapper": "container comparison"}})
    for rep in range(6):
        ks = rng.sample(range(10), 4)
        if ks == sorted(ks):
            ks = ks[::-1]
        keys = [k if rep % 2 == 0 else "k%d" % k for k in ks]
        d0 = {k: onp.array([float(rng.randint(-3, 3)), float(rng.randint(1, 3))]) for k in keys}
        fs = {"concatenate values": lambda d: anp.concatenate([v for v in d.values()]) * onp.arange(1.0, 9.0),
              "weighted by position": lambda d: sum((i + 1.0) * anp.sum(d[k]) for i, k in enumerate(d)),
              "first key": lambda d: d[next(iter(d))] * 3.0, "items order": lambda d: anp.stack([v * (i + 1) for i, (k, v) in enumerate(d.items())]),
              "keys list": lambda d: anp.array([float(str(k).lstrip("k")) for k in d.keys()]) * anp.sum(d[keys[0]]),
              "reversed": lambda d: anp.concatenate([d[k] for k in reversed(list(d))]) * onp.arange(1.0, 9.0)}
        for nm, f in fs.items():
            out["n"] += 1
            out["keys"].append("container-value/%s/%s" % (nm, keys))
            out["dist"]["container-value-cases"] = out["dist"].get("container-value-cases", 0) + 1
            try:
                plain = onp.asarray(f(d0))
                traced = onp.asarray(cvjp(lambda d: anp.sum(f(d)) * 0.0 + f(d), d0)[1])
                ok = plain.shape == traced.shape and bool(onp.all(plain == traced))
                if not ok:
                    out["bad"].append({"oracle": "container-value", "case": nm, "keys": [str(k) for k in keys], "problems": ["value under tracing %s, plain %s" % (traced.tolist(), plain.tolist())],
                                       "site": {"wrapper": "dict iteration"}})
            except Exception as ex:
                out["bad"].append({"oracle": "container-value", "case": nm, "keys": [str(k) for k in keys], "problems": ["raised: %r" % (ex,)], "site": {"wrapper": "dict iteration"}})


def type_queries(out):
    """autograd.builtins.isinstance / type answer, for a value traced at nesting depth 0..3 (any mode sequence),
    exactly as Python's isinstance / type answer for the plain value"""
    import itertools
    import autograd.builtins as ab
    from autograd import make_jvp as mjvp

    classes = [("float", float), ("int", int), ("complex", complex), ("ndarray", onp.ndarray), ("tuple", tuple), ("list", list),
               ("dict", dict), ("ag-tuple", ab.tuple), ("ag-list", ab.list), ("ag-dict", ab.dict), ("str", str),
               ("float-or-ndarray", (float, onp.ndarray)), ("float64", onp.float64), ("number", (int, float, complex))]

    def probe(v):
        r = [bool(ab.isinstance(v, c)) for _, c in classes]
        t = ab.type(v)
        r += [t is float, t is onp.ndarray, t is onp.float64, t is tuple, t is list, t is dict]
        # Python's own isinstance against autograd's container classes (their metaclasses answer for traced containers)
        r += [isinstance(v, ab.tuple), isinstance(v, ab.list), isinstance(v, ab.dict)]
        return r

    def plain_probe(v):
        r = [isinstance(v, (tuple if c is ab.tuple else list if c is ab.list else dict if c is ab.dict else c))
             for _, c in classes]
        t = type(v)
        r += [t is float, t is onp.ndarray, t is onp.float64, t is tuple, t is list, t is dict]
        r += [isinstance(v, tuple), isinstance(v, list), isinstance(v, dict)]
        return r

    values = [("float", 1.5), ("array1", onp.array([1.0, 2.0])), ("array2", onp.array([[1.0, 2.0], [3.0, 4.0]])),
              ("array0", onp.array(2.5)), ("tuple", (1.5, onp.array([1.0, 2.0]))), ("list", [onp.array([1.0]), 2.0]),
              ("dict", {"a": 1.5, "b": onp.array([1.0, 2.0])})]

    def nest(modes, v, seen):
        """evaluate probe on v combined with one fresh variable per level"""
        if not modes:
            inner = v
            while isbox(inner):
                inner = inner._value
            seen.append((probe(v), plain_probe(inner)))
            return 0.0
        m = modes[0]

        def body(z):
            if isinstance(v, (tuple, list, dict)) or ab.isinstance(v, (tuple, list, dict)):
                w = v                                    # containers: traced through their own (outer) level only
            else:
                w = v * z
            nest(modes[1:], w, seen)
            return z * 1.0
        if m == "rev":
            grad(body)(1.0)
        else:
            mjvp(body)(1.0)(1.0)
        return 0.0
    for name, v in values:
        want = plain_probe(v)
        for depth in range(0, 4):
            for modes in itertools.product(["rev", "fwd"], repeat=depth):
                out["n"] += 1
                out["keys"].append("type-query/%s/%s" % (name, "-".join(modes) or "plain"))
                out["dist"]["type-queries"] = out["dist"].get("type-queries", 0) + 1
                seen = []
                try:
                    if isinstance(v, (tuple, list, dict)) and depth >= 1:
                        # a container as the differentiated argument of the outermost operator
                        def outer(c, modes=modes):
                            nest(modes[1:], c, seen)
                            leaves = c.values() if ab.isinstance(c, dict) else c
                            return sum(anp.sum(t) for t in leaves)
                        if modes[0] == "rev":
                            grad(outer)(v)
                        else:
                            continue
                    else:
                        nest(list(modes), v, seen)
                except Exception as ex:
                    out["bad"].append({"oracle": "type-queries", "case": name, "modes": list(modes), "problems": ["raised: %r" % (ex,)],
                                       "site": {"wrapper": "isinstance/type"}})
                    continue
                if seen:
                    want = seen[0][1]
                    seen = [seen[0][0]]
                if not seen or seen[0] != want:
                    names = [n for n, _ in classes] + ["type is float", "type is ndarray", "type is float64", "type is tuple",
                                                       "type is list", "type is dict", "builtin isinstance(v, ag tuple)", "builtin isinstance(v, ag list)",
                                                       "builtin isinstance(v, ag dict)"]
                    diff = [names[i] for i in range(len(want)) if seen and seen[0][i] != want[i]]
                    out["bad"].append({"oracle": "type-queries", "case": name, "modes": list(modes),
                                       "problems": ["autograd's isinstance/type answers differently under tracing for: %s" % diff],
                                       "site": {"wrapper": "isinstance/type"}})


def main():
    cfg = json.load(sys.stdin)
    rng = random.Random(cfg["seed"])
    out = {"n": 0, "keys": [], "samples": [], "bad": [], "dist": {}}
    reps = 6 if cfg.get("tier") == "thorough" else 2
    for rep in range(reps):
        for name, f, x0, optional in templates(rng):
            out["n"] += 1
            out["keys"].append("%s/%s" % (name, x0.shape))
            out["dist"]["wrapper-cases"] = out["dist"].get("wrapper-cases", 0) + 1
            x_before = x0.copy()
            try:
                expected = f(onp, x0)
                if optional:
                    # an option the wrapper does not support may be refused loudly, at any stage
                    loud = (NotImplementedError, TypeError, ValueError, AssertionError, IndexError, KeyError, AttributeError)
                    try:
                        plain = f(anp, x0)
                    except loud:
                        out["dist"]["option-refused"] = out["dist"].get("option-refused", 0) + 1
                        continue
                    try:
                        vjp, under_rev = make_vjp(lambda x: f(anp, x))(x0)
                    except loud:
                        vjp, under_rev = None, expected
                    try:
                        under_fwd = make_jvp(lambda x: f(anp, x))(x0)(onp.ones_like(x0))[0]
                    except loud:
                        under_fwd = expected
                    try:
                        gr = vjp(plain if not isinstance(plain, (list, tuple)) else type(plain)(plain)) if vjp else None
                    except loud:
                        gr = None
                else:
                    plain = f(anp, x0)
                    vjp, under_rev = make_vjp(lambda x: f(anp, x))(x0)
                    try:
                        under_fwd = make_jvp(lambda x: f(anp, x))(x0)(onp.ones_like(x0))[0]
                    except NotImplementedError:      # no forward rule: raising is allowed
                        under_fwd = expected
                    gr = vjp(plain if not isinstance(plain, (list, tuple)) else type(plain)(plain))
                probs = []
                if not same(plain, expected):
                    probs.append("plain value differs from NumPy")
                if not same(under_rev, expected):
                    probs.append("primal under reverse mode differs from NumPy")
                if not same(under_fwd, expected):
                    probs.append("primal under forward mode differs from NumPy")
                if isbox(gr):
                    probs.append("gradient is a tracer object")
                if not onp.array_equal(x0, x_before):
                    probs.append("input modified")
                # where NumPy hands back fresh memory, so does the wrapper called on plain arrays: otherwise the caller's
                # next in-place edit of the "copy" modifies the user-supplied input (for traced calls only reported, see
                # DESIGN 6: x.flatten() on a traced array is a view at the pinned tree)
                if isinstance(expected, onp.ndarray) and expected.size and not onp.shares_memory(expected, x0):
                    if isinstance(plain, onp.ndarray) and onp.shares_memory(plain, x0):
                        probs.append("plain call: the result shares memory with the input where NumPy returns a copy")
                    for r_ in (under_rev, under_fwd):
                        if isinstance(r_, onp.ndarray) and r_ is not expected and onp.shares_memory(r_, x0):
                            out["dist"]["traced-primal-is-a-view-of-the-input:" + name] = 1
            except Exception as ex:
                probs = ["raised: %r" % (ex,)]
            if len(out["samples"]) < 2:
                out["samples"].append({"wrapper": name, "x": x0.tolist()})
            if probs:
                out["bad"].append({"oracle": "wrapper-vs-numpy", "case": name, "x": x0.tolist(),
                                   "problems": probs, "site": {"wrapper": name}})
    type_queries(out)
    container_values(out, rng)
    out["keys"] = sorted(set(out["keys"]))
    print(json.dumps(out, default=str))


if __name__ == "__main__":
    main()
