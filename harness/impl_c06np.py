"""Implementation-only part of C06: autograd.numpy's re-implemented wrappers and a
sample of exported functions agree with NumPy on values, shape, dtype and result
structure, both on plain inputs and as primal values under tracing; inputs are
left unmodified; results handed back by the operators contain no tracer objects."""
import json
import random
import sys
import warnings

import numpy as onp
import autograd.numpy as anp
from autograd import make_vjp, make_jvp, grad, value_and_grad
from autograd.tracer import isbox

warnings.simplefilter("ignore")


def arr(rng, shape):
    n = int(onp.prod(shape)) if shape else 1
    return onp.array([float(rng.randint(-4, 4)) for _ in range(n)]).reshape(shape)


def same(a, b):
    if isinstance(a, (tuple, list)):
        return type(a) is type(b) and len(a) == len(b) and all(same(x, y) for x, y in zip(a, b))
    if isbox(a):
        return False
    aa, bb = onp.asarray(a), onp.asarray(b)
    return aa.shape == bb.shape and aa.dtype == bb.dtype and bool(onp.array_equal(aa, bb, equal_nan=True))


def templates(rng):
    """(name, f(np, x) using module np, x0).  x is the differentiated array."""
    T = []
    s2 = (rng.choice([1, 2, 3]), rng.choice([1, 2, 3]))
    a2, b2 = arr(rng, s2), arr(rng, s2)
    v3, w3 = arr(rng, (3,)), arr(rng, (3,))
    T += [("concatenate-0", lambda m, x: m.concatenate([x, b2], axis=0), a2),
          ("concatenate-1", lambda m, x: m.concatenate((b2, x), axis=1), a2),
          ("concatenate--1", lambda m, x: m.concatenate((b2, x, x), axis=-1), a2),
          ("vstack", lambda m, x: m.vstack([x, b2]), a2),
          ("vstack-1d", lambda m, x: m.vstack((x, w3)), v3),
          ("hstack", lambda m, x: m.hstack([x, b2]), a2),
          ("hstack-1d", lambda m, x: m.hstack((x, w3)), v3),
          ("column_stack", lambda m, x: m.column_stack([x, w3]), v3),
          ("column_stack-2d", lambda m, x: m.column_stack([x, b2]), a2),
          ("stack-0", lambda m, x: m.stack([x, b2]), a2),
          ("stack-1", lambda m, x: m.stack((x, b2, x), axis=1), a2),
          ("stack--1", lambda m, x: m.stack((x, b2), axis=-1), a2),
          ("append", lambda m, x: m.append(x, b2), a2),
          ("append-axis0", lambda m, x: m.append(x, b2, axis=0), a2),
          ("array-nested", lambda m, x: m.array([[x[0], 1.0], [2.0, x[1]]]), v3),
          ("array-of-arrays", lambda m, x: m.array([x, w3]), v3),
          ("array-scalar", lambda m, x: m.array(x[0]), v3),
          ("select", lambda m, x: m.select([x > 0, x < 0], [x, -x * 2], default=7.0), v3),
          ("r_", lambda m, x: m.r_[x, 1.0, w3], v3),
          ("c_", lambda m, x: m.c_[x, w3], v3),
          ("reshape-method", lambda m, x: x.reshape(-1), a2),
          ("reshape-method-tuple", lambda m, x: x.reshape((s2[1], s2[0])), a2),
          ("ravel", lambda m, x: m.ravel(x), a2),
          ("transpose-T", lambda m, x: x.T, a2),
          ("sum-axis", lambda m, x: m.sum(x, axis=-1, keepdims=True), a2),
          ("mean", lambda m, x: m.mean(x, axis=0), a2),
          ("dot", lambda m, x: m.dot(x, b2.T), a2),
          ("matmul-op", lambda m, x: x @ b2.T, a2),
          ("where", lambda m, x: m.where(x > 0, x, 2.0), a2),
          ("maximum", lambda m, x: m.maximum(x, b2), a2),
          ("clip", lambda m, x: m.clip(x, -1.0, 2.0), a2),
          ("abs", lambda m, x: m.abs(x), a2),
          ("square-sum", lambda m, x: m.sum(m.square(x)), a2),
          ("getitem", lambda m, x: x[::-1, 0], a2),
          ("getitem-list", lambda m, x: x[[0, 0, 2]], v3),
          ("tile", lambda m, x: m.tile(x, (2, 1)), a2),
          ("repeat", lambda m, x: m.repeat(x, 2, axis=0), a2),
          ("pad", lambda m, x: m.pad(x, 1, mode="constant"), a2),
          ("split", lambda m, x: m.split(x, 3), v3),
          ("atleast_2d", lambda m, x: m.atleast_2d(x), v3),
          ("tensordot", lambda m, x: m.tensordot(x, b2, axes=([0, 1], [0, 1])), a2),
          ("outer", lambda m, x: m.outer(x, w3), v3),
          ("cumsum", lambda m, x: m.cumsum(x, axis=1), a2),
          ("diag", lambda m, x: m.diag(x), v3),
          ("trace", lambda m, x: m.trace(x), a2),
          ("astype", lambda m, x: x.astype(onp.float32), a2),
          ("pow-op", lambda m, x: x ** 2, a2),
          ("rsub-op", lambda m, x: 3.0 - x, a2),
          ("neg-op", lambda m, x: -x, a2),
          ("floor", lambda m, x: m.floor(x / 2), a2)]
    return T


def main():
    cfg = json.load(sys.stdin)
    rng = random.Random(cfg["seed"])
    out = {"n": 0, "keys": [], "samples": [], "bad": [], "dist": {}}
    reps = 6 if cfg.get("tier") == "thorough" else 2
    for rep in range(reps):
        for name, f, x0 in templates(rng):
            out["n"] += 1
            out["keys"].append("%s/%s" % (name, x0.shape))
            out["dist"]["wrapper-cases"] = out["dist"].get("wrapper-cases", 0) + 1
            x_before = x0.copy()
            try:
                expected = f(onp, x0)
                plain = f(anp, x0)
                vjp, under_rev = make_vjp(lambda x: f(anp, x))(x0)
                try:
                    under_fwd = make_jvp(lambda x: f(anp, x))(x0)(onp.ones_like(x0))[0]
                except NotImplementedError:      # no forward rule: raising is allowed
                    under_fwd = expected
                gr = vjp(plain if not isinstance(plain, (list, tuple)) else type(plain)(plain))
                probs = []
                if not same(plain, expected):
                    probs.append("plain value differs from NumPy")
                if not same(under_rev, expected):
                    probs.append("primal under reverse mode differs from NumPy")
                if not same(under_fwd, expected):
                    probs.append("primal under forward mode differs from NumPy")
                if isbox(gr):
                    probs.append("gradient is a tracer object")
                if not onp.array_equal(x0, x_before):
                    probs.append("input modified")
            except Exception as ex:
                probs = ["raised: %r" % (ex,)]
            if len(out["samples"]) < 2:
                out["samples"].append({"wrapper": name, "x": x0.tolist()})
            if probs:
                out["bad"].append({"oracle": "wrapper-vs-numpy", "case": name, "x": x0.tolist(),
                                   "problems": probs, "site": {"wrapper": name}})
    out["keys"] = sorted(set(out["keys"]))
    print(json.dumps(out, default=str))


if __name__ == "__main__":
    main()
