"""Implementation side of the L2 correspondence: random closed programs of the
object language (nested grad / forward-mode derivatives, closures over outer
variables, value-steered branches, faults) run on the real autograd."""
import json
import random
import sys
import warnings

import numpy as onp
import autograd.numpy as anp
from autograd import grad, make_jvp
from autograd.extend import primitive, defvjp, defjvp
from autograd.tracer import trace_stack, isbox

warnings.simplefilter("ignore")


def ffact(k, n):
    r = 1
    for i in range(n):
        r *= (k - i)
    return r


@primitive
def F(n, x):
    return float(ffact(6, n)) * x ** (6 - n) if n <= 6 else 0.0 * x


defvjp(F, None, lambda ans, n, x: lambda g: g * F(n + 1, x))
defjvp(F, None, lambda g, ans, n, x: g * F(n + 1, x))


@primitive
def rawmul(a, b):
    # a primitive whose raw function only accepts plain numbers (it goes through NumPy's C ufunc,
    # which cannot multiply tracer objects): the wrapper must have unboxed every level before calling it
    return float(onp.multiply(a, b))


defvjp(rawmul, lambda ans, a, b: lambda g: b * g, lambda ans, a, b: lambda g: a * g)
defjvp(rawmul, lambda g, ans, a, b: g * b, lambda g, ans, a, b: a * g)


@primitive
def novjp(x):
    return x * 1.0


defjvp(novjp, lambda g, ans, x: g)


@primitive
def nojvp(x):
    return x * 1.0


defvjp(nojvp, lambda ans, x: lambda g: g)


HOOK = [None]     # optional scheduling hook, used by the thread harness (impl_c20.py)


class Deadlock(Exception):
    pass


DEAD = [False]      # once one worker thread got stuck, later ones are given up on quickly


class UserFail(Exception):
    pass


def prim1(p, a):
    if p == "neg":
        return -a
    if p == "sign":
        return anp.sign(a)
    if p == "novjp":
        return novjp(a)
    if p == "nojvp":
        return nojvp(a)
    if isinstance(p, list) and p[0] == "F":
        return F(p[1], a)
    raise ValueError(p)


def prim2(p, a, b):
    if p == "add":
        return a + b
    if p == "sub":
        return a - b
    if p == "mul":
        return a * b
    if p == "rmul":
        return rawmul(a, b)
    raise ValueError(p)


def ev(e, env):
    t = e[0]
    if t == "var":
        return env[e[1]]
    if t == "const":
        return float(e[1])
    if t == "app1":
        return prim1(e[1], ev(e[2], env))
    if t == "app2":
        a = ev(e[2], env)
        b = ev(e[3], env)
        return prim2(e[1], a, b)
    if t == "let":
        return ev(e[2], [ev(e[1], env)] + env)
    if t == "ifpos":
        c = ev(e[1], env)
        if c > 0:
            return ev(e[2], env)
        return ev(e[3], env)
    if t == "grad" or t == "deriv":
        x = ev(e[2], env)

        def body(v):
            if HOOK[0]:
                HOOK[0]("in")          # just after the trace was entered
            return ev(e[1], [v] + env)
        if HOOK[0]:
            HOOK[0]("pre")             # just before the trace is entered
        if t == "grad":
            r = grad(body)(x)
        else:
            r = make_jvp(body)(x)(1.0)[1]
        if HOOK[0]:
            HOOK[0]("post")            # just after the trace was exited
        return r
    if t == "thread":
        # evaluate the sub-expression on a fresh worker thread (closing over this thread's traced values)
        import threading
        box = {}

        def work():
            try:
                box["v"] = ev(e[1], env)
            except BaseException as ex:      # noqa: B036 - re-raised in the calling thread
                box["ex"] = ex
        th = threading.Thread(target=work, daemon=True)
        th.start()
        th.join(2 if DEAD[0] else 30)
        if th.is_alive():
            DEAD[0] = True
            raise Deadlock("a worker thread started inside a differentiation cannot finish while its creator waits for it")
        if "ex" in box:
            raise box["ex"]
        return box["v"]
    if t == "fail":
        raise UserFail()
    if t == "try":
        try:
            return ev(e[1], env)
        except Exception:
            return ev(e[2], env)
    raise ValueError(t)


# ------------------------------------------------------------ generator ----
def gen(rng, depth, nvars, opts, ddepth=0):
    r = rng.random()
    if depth <= 0 or r < 0.12:
        if nvars and rng.random() < 0.75:
            # bias to the innermost variables but reach all enclosing ones
            i = 0 if rng.random() < 0.45 else rng.randrange(nvars)
            return ["var", i]
        return ["const", rng.choice([-2, -1, 1, 2, 3])]
    if r < 0.42:
        return ["app2", rng.choice(["add", "sub", "mul", "mul", "rmul", "rmul"]),
                gen(rng, depth - 1, nvars, opts, ddepth), gen(rng, depth - 1, nvars, opts, ddepth)]
    if r < 0.56:
        ps = ["neg", ["F", rng.randint(0, 5)], ["F", rng.randint(2, 6)]]
        if opts.get("sign"):
            ps += ["sign", "sign"]
        if opts.get("norule"):
            ps += ["novjp", "nojvp", "novjp", "nojvp"]
        return ["app1", rng.choice(ps), gen(rng, depth - 1, nvars, opts, ddepth)]
    if r < 0.64:
        return ["let", gen(rng, depth - 1, nvars, opts, ddepth), gen(rng, depth - 1, nvars + 1, opts, ddepth)]
    if r < 0.70:
        return ["ifpos", gen(rng, depth - 2, nvars, opts, ddepth), gen(rng, depth - 1, nvars, opts, ddepth),
                gen(rng, depth - 1, nvars, opts, ddepth)]
    if r < 0.95 and ddepth < opts.get("maxd", 4):
        op = rng.choice(opts.get("ops", ["grad", "deriv"]))
        body = gen(rng, depth - 1, nvars + 1, opts, ddepth + 1)
        if rng.random() < opts.get("indep", 0.0):
            # the body's own variable is shadowed by a constant: output independent of it
            body = ["let", ["const", rng.choice([1, 2, 3])], body]
        return [op, body, gen(rng, depth - 2, nvars, opts, ddepth)]
    if opts.get("fail"):
        if rng.random() < 0.5:
            return ["fail"]
        return ["try", gen(rng, depth - 1, nvars, opts, ddepth), gen(rng, depth - 1, nvars, opts, ddepth)]
    return ["const", rng.choice([1, 2])]


def gen_fault_pattern(rng, opts):
    """an enclosing differentiation whose body catches a failure raised inside an inner
    differentiation and then differentiates again (the pattern that exposes stale trace-id state)"""
    ops = opts.get("ops", ["grad", "deriv"])
    failing_inner = [rng.choice(ops), ["app2", "mul", ["fail"] if rng.random() < 0.5 else
                                       ["app2", "add", ["var", 0], ["fail"]], ["var", 0]], ["const", rng.choice([1, 2])]]
    if rng.random() < 0.4:     # the failure happens one level deeper
        failing_inner = [rng.choice(ops), ["app2", "mul", ["var", 0], failing_inner], ["var", 0]]
    recover = [rng.choice(ops), gen(rng, 3, 2, dict(opts, fail=False), 2), rng.choice([["var", 0], ["const", 3], ["const", 2]])]
    body = ["app2", rng.choice(["mul", "add"]), ["var", 0], ["try", failing_inner, recover]]
    if rng.random() < 0.5:
        body = ["app2", "mul", body, gen(rng, 2, 1, dict(opts, fail=False), 1)]
    return [rng.choice(ops), body, ["const", rng.choice([1, 2, 3])]]


def wrap_threads(e, rng, p):
    """wrap a random subset of the differential operators of e in a worker thread"""
    if not isinstance(e, list) or not e or not isinstance(e[0], str):
        return e
    if e[0] == "app1" or e[0] == "app2":
        r = [e[0], e[1]] + [wrap_threads(x, rng, p) for x in e[2:]]
    else:
        r = [e[0]] + [wrap_threads(x, rng, p) if isinstance(x, list) else x for x in e[1:]]
    if e[0] in ("grad", "deriv") and rng.random() < p:
        return ["thread", r]
    return r


def ddepth_of(e):
    if not isinstance(e, list):
        return 0
    d = max([ddepth_of(x) for x in e[1:]] + [0])
    return d + (1 if e[0] in ("grad", "deriv") else 0)


def modes_of(e, acc):
    if isinstance(e, list):
        if e[0] in ("grad", "deriv"):
            acc.append(e[0][0])
        for x in e[1:]:
            modes_of(x, acc)
    return acc


def size_of(e):
    return 1 + sum(size_of(x) for x in e[1:] if isinstance(x, list)) if isinstance(e, list) else 0


def run_one(e):
    top_before = trace_stack.top
    try:
        v = ev(e, [])
        if isbox(v):
            return {"box": True, "repr": str(type(v))}, top_before
        fv = float(v)
        if fv != fv or abs(fv) >= 2 ** 50 or fv != int(fv):   # (NaN: an intermediate value overflowed, inf - inf)
            return {"inexact": True}, top_before
        return {"val": int(fv)}, top_before
    except OverflowError:
        return {"inexact": True}, top_before
    except Exception as ex:
        return {"raised": type(ex).__name__ + ": " + str(ex)[:120]}, top_before


def registries():
    from autograd import core, tracer
    return {"primitive_vjps": len(core.primitive_vjps), "primitive_jvps": len(core.primitive_jvps),
            "notrace": sorted((k.__name__, len(v)) for k, v in tracer.notrace_primitives.items()),
            "box_types": len(tracer.Box.type_mappings), "vspaces": len(core.VSpace.mappings)}


def as_int(v):
    if isbox(v):
        return "box"
    fv = float(v)
    if fv != fv or abs(fv) >= 2 ** 50 or fv != int(fv):
        return "inexact"
    return int(fv)


def run_c06(cfg, rng, opts, out):
    from autograd import value_and_grad
    from autograd.core import make_vjp as core_vjp, make_jvp as core_jvp
    n = 0
    tries = 0
    while n < cfg["n"] and tries < cfg["n"] * 30:
        tries += 1
        body = gen(rng, rng.randint(2, cfg.get("depth", 5)), 1, opts)
        if size_of(body) > 40:
            continue
        x = float(rng.choice([-2, -1, 1, 2, 3]))
        f = lambda v: ev(body, [v])  # noqa: E731
        trace_stack.top = -1
        try:
            obs = [f(x), core_vjp(f, x)[1], core_jvp(f, x)(1.0)[0],
                   value_and_grad(lambda a: value_and_grad(f)(a)[0])(x)[0]]
            vals = [as_int(v) for v in obs]
        except OverflowError:
            out["skipped"] += 1
            continue
        except Exception as ex:
            # a body that raises on the plain input must raise under tracing too
            try:
                f(x)
                vals = ["raised-only-under-tracing: " + type(ex).__name__]
            except Exception:
                continue
        if "inexact" in vals:
            out["skipped"] += 1
            continue
        n += 1
        out["dist"]["ddepth=%d" % ddepth_of(body)] = out["dist"].get("ddepth=%d" % ddepth_of(body), 0) + 1
        out["cases"].append({"body": body, "x": int(x), "vals": vals, "ddepth": ddepth_of(body)})


def main():
    cfg = json.load(sys.stdin)
    rng = random.Random(cfg["seed"])
    opts = cfg.get("opts", {})
    out = {"cases": [], "dist": {}, "skipped": 0}
    if cfg.get("mode") == "c06":
        run_c06(cfg, rng, opts, out)
        print(json.dumps(out))
        return
    reg0 = registries()

    def dist(k):
        out["dist"][k] = out["dist"].get(k, 0) + 1

    progs = list(cfg.get("programs", []))
    tries = 0
    while len(progs) < cfg["n"] and tries < cfg["n"] * 30:
        tries += 1
        if opts.get("fail") and rng.random() < 0.25:
            e = gen_fault_pattern(rng, opts)
        else:
            e = gen(rng, rng.randint(3, cfg.get("depth", 6)), 0, opts)
        if ddepth_of(e) < cfg.get("min_ddepth", 1) or size_of(e) > cfg.get("max_size", 40):
            continue
        if opts.get("thread"):
            e = wrap_threads(e, rng, opts["thread"])
        progs.append(e)
    for e in progs:
        if cfg.get("reset_top", True):
            trace_stack.top = -1          # each program starts from the initial state
        r, top_before = run_one(e)
        if r.get("inexact"):
            out["skipped"] += 1
            continue
        dd = ddepth_of(e)
        dist("diff-depth=%d" % min(dd, 5))
        dist("modes=" + "".join(sorted(set(modes_of(e, [])))))
        dist("raised" if "raised" in r else "value")
        out["cases"].append({"exp": e, "res": r, "top_before": top_before, "top_after": trace_stack.top,
                             "ddepth": dd})
    out["registries_unchanged"] = registries() == reg0
    print(json.dumps(out))


if __name__ == "__main__":
    main()
