"""R-linear primitives on complex (and real) arrays (coq/theories/Array/Realified.v): the structure constants of the
realified linear part are read off NumPy on the realified basis (e_k and i e_k); the model's rule under autograd's
convention and its forward map are compared with autograd on Gaussian-integer data.  Only configurations whose constants
are integers are used (transform lengths 1, 2 and 4; inverse transforms are multiplied by their length)."""
import json
import random
import sys
import warnings

import numpy as onp
import autograd.numpy as anp
from autograd import make_vjp, make_jvp

warnings.simplefilter("ignore")
LOUD = (NotImplementedError, TypeError, ValueError, AssertionError, IndexError, KeyError, NameError, AttributeError)


def table():
    T = []

    def add(prim, tag, f, shape, cin):
        T.append((prim, tag, f, shape, cin))
    for cin in (True, False):
        k = "complex" if cin else "real"
        for sh, kw in (((4,), {}), ((2,), {}), ((1,), {}), ((2, 4), {}), ((2, 4), {"axis": 0}), ((4,), {"n": 2}), ((2,), {"n": 4}), ((4, 2), {"axis": -2})):
            add("fft.fft", "%s %s %s" % (k, sh, kw), (lambda m, z, kw=kw: m.fft.fft(z, **kw)), sh, cin)
            nn = kw.get("n", sh[kw.get("axis", -1)])
            add("fft.ifft", "%s %s %s (times n)" % (k, sh, kw), (lambda m, z, kw=kw, nn=nn: m.fft.ifft(z, **kw) * nn), sh, cin)
        for sh, kw in (((2, 2), {}), ((4, 2), {}), ((2, 4), {"axes": (1, 0)}), ((2, 2, 2), {"axes": (0, 2)}), ((4, 4), {"s": (2, 4)})):
            add("fft.fft2", "%s %s %s" % (k, sh, kw), (lambda m, z, kw=kw: m.fft.fft2(z, **kw)), sh, cin)
            add("fft.fftn", "%s %s %s" % (k, sh, kw), (lambda m, z, kw=kw: m.fft.fftn(z, **kw)), sh, cin)
        add("fft.ifft2", "%s (2,4) (times 8)" % k, (lambda m, z: m.fft.ifft2(z) * 8.0), (2, 4), cin)
        add("fft.ifftn", "%s (2,2,2) (times 8)" % k, (lambda m, z: m.fft.ifftn(z) * 8.0), (2, 2, 2), cin)
        for ax in (None, 0, 1, (0, 1)):
            add("fft.fftshift", "%s axes=%s" % (k, ax), (lambda m, z, ax=ax: m.fft.fftshift(z, axes=ax)), (3, 4), cin)
            add("fft.ifftshift", "%s axes=%s" % (k, ax), (lambda m, z, ax=ax: m.fft.ifftshift(z, axes=ax)), (3, 4), cin)
        cmat = onp.array([[1 + 2j, -1j], [3.0, 2 - 1j], [0.0, 1j]])
        add("matmul", "%s (2,3) @ complex constant (3,2)" % k, (lambda m, z: m.matmul(z, cmat)), (2, 3), cin)
        add("matmul", "complex constant (2,3) @ %s (3,2)" % k, (lambda m, z: m.matmul(cmat.T, z)), (3, 2), cin)
        add("multiply", "%s times complex constant" % k, (lambda m, z: z * (2 + 3j)), (3,), cin)
        add("multiply", "%s times complex array, broadcast" % k, (lambda m, z: z * onp.array([1j, 2.0, 1 - 1j])), (2, 3), cin)
        add("einsum", "%s 'ij,jk->ik' with a complex constant" % k, (lambda m, z: m.einsum("ij,jk->ik", z, cmat)), (2, 3), cin)
        add("tensordot", "%s with a complex constant" % k, (lambda m, z: m.tensordot(z, cmat, 1)), (2, 3), cin)
        add("kron", "%s kron complex constant" % k, (lambda m, z: m.kron(z, onp.array([1j, 2.0]))), (2,), cin)
        add("concatenate", "%s with a complex constant block" % k, (lambda m, z: m.concatenate([onp.array([1j, 2.0]), z, z])), (2,), cin)
        add("stack", "%s with a complex constant" % k, (lambda m, z: m.stack([z, onp.array([1j, 2.0])])), (2,), cin)
        add("where", "%s branch against a complex constant" % k, (lambda m, z: m.where(onp.array([True, False, True]), z, 1j)), (3,), cin)
        add("sum", "%s axis=0" % k, (lambda m, z: m.sum(z, axis=0)), (2, 3), cin)
        add("cumsum", "%s axis=1" % k, (lambda m, z: m.cumsum(z, axis=1)), (2, 3), cin)
        add("diff", "%s" % k, (lambda m, z: m.diff(z)), (4,), cin)
        add("trace", "%s" % k, (lambda m, z: m.trace(z)), (3, 3), cin)
        add("transpose", "%s" % k, (lambda m, z: m.transpose(z)), (2, 3), cin)
        add("getitem", "%s reversed with repeats" % k, (lambda m, z: z[[2, 0, 0]]), (3,), cin)
        add("real", "of %s" % k, (lambda m, z: m.real(z)), (3,), cin)
        add("imag", "of %s" % k, (lambda m, z: m.imag(z)), (3,), cin)
        add("conj", "of %s" % k, (lambda m, z: m.conj(z)), (3,), cin)
        add("conjugate", "of %s" % k, (lambda m, z: m.conjugate(z)), (3,), cin)
        add("real*imag-free", "real + 2*imag of %s" % k, (lambda m, z: m.real(z) + 2.0 * m.imag(z)), (3,), cin)
        add("z + conj z", "of %s" % k, (lambda m, z: z + m.conj(z) * (1 + 1j)), (3,), cin)
        add("real_if_close-free astype", "%s to complex" % k, (lambda m, z: z.astype(complex) * (1 - 2j)), (3,), cin)
    for sh, kw in (((4,), {}), ((2,), {}), ((2, 4), {}), ((4, 2), {"axis": 0}), ((2,), {"n": 4}), ((4,), {"n": 2})):
        add("fft.rfft", "real %s %s" % (sh, kw), (lambda m, z, kw=kw: m.fft.rfft(z, **kw)), sh, False)
    add("fft.rfft2", "real (2,4)", (lambda m, z: m.fft.rfft2(z)), (2, 4), False)
    add("fft.rfftn", "real (2,2,4)", (lambda m, z: m.fft.rfftn(z)), (2, 2, 4), False)
    add("fft.rfftn", "real (2,4) axes=(1,0)", (lambda m, z: m.fft.rfftn(z, axes=(1, 0))), (4, 2), False)
    for sh, n_ in (((3,), 4), ((2,), 2), ((2, 3), 4)):
        add("fft.irfft", "complex %s (times %d)" % (sh, n_), (lambda m, z, n_=n_: m.fft.irfft(z, n_) * n_), sh, True)
    add("fft.irfft2", "complex (2,3) (times 8)", (lambda m, z: m.fft.irfft2(z) * 8.0), (2, 3), True)
    add("fft.irfftn", "complex (2,2,3) (times 16)", (lambda m, z: m.fft.irfftn(z) * 16.0), (2, 2, 3), True)
    return T


def realify(a, is_complex):
    a = onp.asarray(a)
    if not is_complex:
        return [t for t in onp.asarray(a, float).ravel()]
    out = []
    for t in onp.asarray(a, complex).ravel():
        out += [t.real, t.imag]
    return out


def ints(l):
    r = [int(round(t)) for t in l]
    if any(abs(a - b) > 1e-9 for a, b in zip(r, l)):
        raise ArithmeticError("not integers")
    return r


def main():
    cfg = json.load(sys.stdin)
    rng = random.Random(cfg["seed"])
    out = {"cases": [], "dist": {}, "skipped": []}

    def dist(k):
        out["dist"][k] = out["dist"].get(k, 0) + 1
    for prim, tag, f, shape, cin in table():
        n = int(onp.prod(shape))

        def rnd(lo=-3, hi=3):
            re_ = onp.array([float(rng.randint(lo, hi)) for _ in range(n)])
            if not cin:
                return re_.reshape(shape)
            return (re_ + 1j * onp.array([float(rng.randint(lo, hi)) for _ in range(n)])).reshape(shape)
        a, da = rnd(), rnd(-2, 2)
        try:
            y = onp.asarray(f(onp, a))
            cout = bool(onp.iscomplexobj(y))
            base = onp.asarray(f(onp, onp.zeros(shape, dtype=complex if cin else float)))
            S = []
            na = 2 * n if cin else n
            for k in range(na):
                e = onp.zeros(n, dtype=complex if cin else float)
                if cin:
                    e[k // 2] = 1.0 if k % 2 == 0 else 1j
                else:
                    e[k] = 1.0
                col = ints(realify(onp.asarray(f(onp, e.reshape(shape))) - base, cout))
                for o, cval in enumerate(col):
                    if cval:
                        S.append([k, 0, o, cval])
            dy = ints(realify(onp.asarray(f(onp, a + da)) - y, cout))
        except ArithmeticError:
            out["skipped"].append("%s %s: constants are not integers" % (prim, tag))
            continue
        except Exception as ex:
            out["skipped"].append("%s %s: %r" % (prim, tag, ex))
            continue
        no = (2 if cout else 1) * int(y.size)
        gre = onp.array([float(rng.randint(-3, 3)) for _ in range(y.size)])
        g = (gre + 1j * onp.array([float(rng.randint(-3, 3)) for _ in range(y.size)]) if cout else gre).reshape(y.shape)
        case = {"prim": prim, "tag": tag, "na": na, "no": no, "cin": cin, "cout": cout, "S": S, "a": ints(realify(a, cin)), "da": ints(realify(da, cin)),
                "dy": dy, "g": ints(realify(g, cout))}
        try:
            vj = onp.asarray(make_vjp(lambda z: f(anp, z))(a)[0](g if y.shape else g.reshape(())[()]))
            ok = vj.shape == tuple(shape) and bool(onp.iscomplexobj(vj)) == cin
            case["vjp"] = ints(realify(vj, cin)) if ok else []
        except LOUD as ex:
            dist("realified: reverse-mode-raises (allowed)")
            out["skipped"].append("%s %s: %r" % (prim, tag, ex))
            continue
        except ArithmeticError:
            ok = False
            case["vjp"] = []
        try:
            jv = onp.asarray(make_jvp(lambda z: f(anp, z))(a)(da)[1])
            ok = ok and jv.shape == y.shape and bool(onp.iscomplexobj(jv)) == cout
            case["jvp"] = ints(realify(jv, cout)) if ok else None
        except LOUD:
            case["jvp"] = None
            dist("realified: forward-mode-raises (allowed)")
        except ArithmeticError:
            ok = False
            case["jvp"] = None
        case["ok"] = bool(ok)
        dist("realified:%s->%s" % ("complex" if cin else "real", "complex" if cout else "real"))
        out["cases"].append(case)
    print(json.dumps(out))


if __name__ == "__main__":
    main()
