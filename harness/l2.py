"""Shared helpers for the L2 (tagged evaluator) correspondence runs."""
from harness import common as C

IMPORTS = ("From Coq Require Import List ZArith.\nImport ListNotations.\n"
           "From AG Require Import Tagged Tower Run08.\nLocal Open Scope Z_scope.\n")


def cprim(p):
    if isinstance(p, list):
        return "(PF %d%%nat)" % p[1]
    return {"add": "PAdd", "sub": "PSub", "mul": "PMul", "rmul": "PMul", "neg": "PNeg", "sign": "PSign",
            "novjp": "PNoVjp", "nojvp": "PNoJvp"}[p]


def cexp(e):
    t = e[0]
    if t == "var":
        return "(Var %d%%nat)" % e[1]
    if t == "const":
        return "(Const (%d))" % e[1]
    if t == "app1":
        return "(App1 %s %s)" % (cprim(e[1]), cexp(e[2]))
    if t == "app2":
        return "(App2 %s %s %s)" % (cprim(e[1]), cexp(e[2]), cexp(e[3]))
    if t == "let":
        return "(Let %s %s)" % (cexp(e[1]), cexp(e[2]))
    if t == "ifpos":
        return "(IfPos %s %s %s)" % (cexp(e[1]), cexp(e[2]), cexp(e[3]))
    if t == "grad":
        return "(Grad %s %s)" % (cexp(e[1]), cexp(e[2]))
    if t == "deriv":
        return "(Deriv %s %s)" % (cexp(e[1]), cexp(e[2]))
    if t == "thread":          # running a sub-expression on another thread does not change its meaning
        return cexp(e[1])
    if t == "fail":
        return "Fail"
    if t == "try":
        return "(Try %s %s)" % (cexp(e[1]), cexp(e[2]))
    raise ValueError(t)


def cres(r):
    return "(Some (%d))" % r["val"] if "val" in r else "None"


def case08(c):
    return "{| p_exp := %s; i_res := %s |}" % (cexp(c["exp"]), cres(c["res"]))


def run_programs(res, tag, seed, n, opts, depth=6, min_ddepth=1, checker="check08", max_size=40,
                 programs=None, nontrivial=lambda c: c["ddepth"] >= 2):
    """Run n random programs on the implementation and on model+spec.  Returns
    (bad, tie, err): programs on which the implementation differs from the spec,
    programs on which only the model differs, or an error string."""
    out, err = C.run_impl("impl_l2.py", {"seed": seed, "n": n, "opts": opts, "depth": depth,
                                         "min_ddepth": min_ddepth, "max_size": max_size,
                                         "programs": programs or []})
    if out is None:
        return [], [], err
    cases = out["cases"]
    for k, v in out["dist"].items():
        res.count(k, v)
    res.count("skipped-inexact", out["skipped"])
    boxed = [c for c in cases if c["res"].get("box")]
    cases = [c for c in cases if not c["res"].get("box")]
    codes = C.coq_eval(tag, IMPORTS, "", [case08(c) for c in cases], checker, shard=250)
    res.add_cases(len(cases), [str(c["exp"]) for c in cases if nontrivial(c)],
                  [{"exp": c["exp"], "impl": c["res"]} for c in cases[:2]])
    key = lambda c: len(str(c["exp"]))  # noqa: E731
    bad = sorted([c for c, k in zip(cases, codes) if k == 2] + boxed, key=key)
    tie = sorted([c for c, k in zip(cases, codes) if k == 1], key=key)
    return bad, tie, None


# ---- a small pure-Python generator of operator-free bodies (for C07 towers) ----
def gen_body(rng, depth, nvars):
    r = rng.random()
    if depth <= 0 or r < 0.15:
        if rng.random() < 0.8:
            return ["var", 0 if rng.random() < 0.6 else rng.randrange(nvars)]
        return ["const", rng.choice([-2, -1, 1, 2, 3])]
    if r < 0.6:
        return ["app2", rng.choice(["add", "sub", "mul", "rmul"]), gen_body(rng, depth - 1, nvars),
                gen_body(rng, depth - 1, nvars)]
    if r < 0.9:
        return ["app1", rng.choice(["neg", ["F", rng.randint(0, 4)], ["F", rng.randint(1, 5)]]),
                gen_body(rng, depth - 1, nvars)]
    return ["let", gen_body(rng, depth - 1, nvars), gen_body(rng, depth - 1, nvars + 1)]


def tower(body, modes, x):
    """op_k(...op_1(body)...) all with respect to the same variable, at x."""
    e = body
    for m in modes[:-1]:
        e = [m, e, ["var", 0]]
    return [modes[-1], e, ["const", x]]


def run_cases(res, tag, mode_cfg, term_of, checker, key_of, nontrivial, sample_of):
    out, err = C.run_impl("impl_l2.py", mode_cfg)
    if out is None:
        return [], [], err, None
    cases = out["cases"]
    for k, v in out["dist"].items():
        res.count(k, v)
    res.count("skipped-inexact", out["skipped"])
    codes = C.coq_eval(tag, IMPORTS, "", [term_of(c) for c in cases], checker, shard=250)
    res.add_cases(len(cases), [key_of(c) for c in cases if nontrivial(c)], [sample_of(c) for c in cases[:2]])
    key = lambda c: len(str(c))  # noqa: E731
    bad = sorted([c for c, k in zip(cases, codes) if k == 2], key=key)
    tie = sorted([c for c, k in zip(cases, codes) if k == 1], key=key)
    return bad, tie, None, out


def closure_family():
    """Systematic closure patterns: an inner operator (variable y = Var 0) inside an outer one
    (x = Var 1); one binary primitive applied to every ordered pair of arguments drawn from
    {y, x, y*x, x*y, y+x, F2(y), const}, under all four mode pairings, plus a depth-3 variant."""
    y, x = ["var", 0], ["var", 1]
    atoms = [y, x, ["app2", "mul", y, x], ["app2", "mul", x, y], ["app2", "add", y, x],
             ["app1", ["F", 2], y], ["const", 2]]
    progs = []
    for p in ("add", "sub", "mul", "rmul"):
        for a in atoms:
            for b in atoms:
                body = ["app2", p, a, b]
                for o in ("grad", "deriv"):
                    for i in ("grad", "deriv"):
                        progs.append([o, ["app2", "mul", ["var", 0], [i, body, ["const", 3]]], ["const", 2]])
    # depth 3: the innermost body sees two enclosing variables
    z = ["var", 2]
    for p in ("mul", "rmul"):
        for a, b in ((y, ["app2", "mul", y, z]), (["app2", "mul", y, x], z), (y, ["app2", "mul", x, z])):
            body = ["app2", p, a, b]
            for m in (("grad", "grad", "deriv"), ("deriv", "grad", "grad"), ("grad", "deriv", "grad"), ("deriv", "deriv", "deriv")):
                progs.append([m[0], ["app2", "add", ["var", 0], [m[1], ["app2", "mul", ["var", 0], [m[2], body, ["const", 3]]],
                                                                  ["const", 2]]], ["const", 1]])
    return progs


def threaded(e, rng, p=0.5):
    """wrap a random subset of the differential operators of e in a worker thread"""
    if not isinstance(e, list):
        return e
    r = [threaded(x, rng, p) if isinstance(x, list) and x and isinstance(x[0], str) and x[0] in
         ("var", "const", "app1", "app2", "let", "ifpos", "grad", "deriv", "fail", "try") else x for x in e]
    if e[0] in ("grad", "deriv") and rng.random() < p:
        return ["thread", r]
    return r
