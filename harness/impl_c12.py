"""Implementation side of C12: container primitives on random nested values
(model correspondence), random access-path programs with a label oracle, and
flatten/unflatten commuting with grad."""
import json
import random
import sys
import warnings

import numpy as onp
import autograd.numpy as anp
from autograd import make_vjp, make_jvp, grad
from autograd.core import vspace
from autograd.builtins import tuple as atuple, list as alist, dict as adict
from autograd.misc.flatten import flatten
from autograd.tracer import isbox

sys.path.insert(0, __file__.rsplit("/", 1)[0])
from impl_c13 import enc, deq, veq  # noqa: E402

warnings.simplefilter("ignore")


def gen_val(rng, depth, top=True):
    r = rng.random()
    if not top and (depth == 0 or r < 0.45):
        if rng.random() < 0.4:
            return float(rng.randint(-3, 3))
        shape = tuple(rng.choice([1, 2, 3]) for _ in range(rng.randint(0, 2)))
        n = int(onp.prod(shape)) if shape else 1
        a = onp.array([float(rng.randint(-3, 3)) for _ in range(n)]).reshape(shape)
        # same values, other memory layouts: Fortran order, a transposed view, a strided / reversed view
        lay = rng.random()
        if len(shape) == 2 and lay < 0.25:
            a = onp.asfortranarray(a)
        elif len(shape) == 2 and lay < 0.4:
            a = onp.ascontiguousarray(a.T).T
        elif len(shape) >= 1 and lay < 0.5:
            big = onp.zeros(tuple(2 * d for d in shape))
            big[tuple(slice(None, None, 2) for _ in shape)] = a
            a = big[tuple(slice(None, None, 2) for _ in shape)]
        elif len(shape) >= 1 and lay < 0.6:
            a = onp.ascontiguousarray(a[::-1])[::-1]
        return a
    n = rng.randint(1 if top else 0, 4)
    if r < 0.6 or (top and r < 0.8 and False):
        return [gen_val(rng, depth - 1, False) for _ in range(n)]
    if r < 0.8:
        return tuple(gen_val(rng, depth - 1, False) for _ in range(n))
    keys = sorted(rng.sample(range(8), n))
    return {k: gen_val(rng, depth - 1, False) for k in keys}


def like(rng, v):
    """a random integer-valued value with the structure of v"""
    if isinstance(v, list):
        return [like(rng, x) for x in v]
    if isinstance(v, tuple):
        return tuple(like(rng, x) for x in v)
    if isinstance(v, dict):
        return {k: like(rng, x) for k, x in v.items()}
    a = onp.asarray(v)
    r = onp.array([float(rng.randint(-3, 3)) for _ in range(a.size)]).reshape(a.shape)
    return float(r) if not isinstance(v, onp.ndarray) else r


def reorder(v):
    """the same value with every dict built in the opposite key order"""
    if isinstance(v, dict):
        return {k: reorder(v[k]) for k in reversed(list(v))}
    if isinstance(v, list):
        return [reorder(t) for t in v]
    if isinstance(v, tuple):
        return tuple(reorder(t) for t in v)
    return v


def c_copy(v):
    if isinstance(v, dict):
        return {k: c_copy(t) for k, t in v.items()}
    if isinstance(v, list):
        return [c_copy(t) for t in v]
    if isinstance(v, tuple):
        return tuple(c_copy(t) for t in v)
    return onp.array(v, order="C", copy=True) if isinstance(v, onp.ndarray) else v


def c_map(v, f):
    if isinstance(v, dict):
        return {k: c_map(t, f) for k, t in v.items()}
    if isinstance(v, list):
        return [c_map(t, f) for t in v]
    if isinstance(v, tuple):
        return tuple(c_map(t, f) for t in v)
    return f(v)


def c_reorder(v):
    """The same value with every dict rebuilt in the reverse insertion order (equal as a Python value)."""
    if isinstance(v, dict):
        return {k: c_reorder(v[k]) for k in reversed(list(v))}
    if isinstance(v, list):
        return [c_reorder(t) for t in v]
    if isinstance(v, tuple):
        return tuple(c_reorder(t) for t in v)
    return v


def adjoint_ok(f, x, g, vj):
    """<g, f(b) - f(0)> == <vjp(g), b> for every standard basis vector b of x's space (f affine)."""
    vs = vspace(x)
    fx0 = f(vs.zeros())
    ovs = vspace(fx0)
    c0 = ovs.inner_prod(g, fx0)
    for b in vs.standard_basis():
        if ovs.inner_prod(g, f(b)) - c0 != vs.inner_prod(vj, b):
            return False
    return True


def lin_part(f, x, v):
    """f(v) - f(0) for affine f"""
    vs = vspace(x)
    f0 = f(vs.zeros())
    ovs = vspace(f0)
    return ovs.add(f(v), ovs.scalar_mul(f0, -1.0))


def enc_idx(op):
    return op


def main():
    cfg = json.load(sys.stdin)
    rng = random.Random(cfg["seed"])
    out = {"cases": [], "oracle_bad": [], "oracle_n": 0, "oracle_keys": [], "dist": {}}

    def dist(k):
        out["dist"][k] = out["dist"].get(k, 0) + 1

    # ---- (A) primitives with a model: take int / slice / key, + on both sides ----
    for i in range(cfg["n"]):
        x = gen_val(rng, rng.randint(1, 3))
        ops = []
        if isinstance(x, dict):
            ops.append(["key", rng.choice(list(x))])
            if rng.random() < 0.15:
                ops.append(["key", 9])          # missing key: must raise
        else:
            n = len(x)
            ops.append(["int", rng.randint(-n - 1, n)])
            a = rng.choice([None] + list(range(-n - 1, n + 2)))
            b = rng.choice([None] + list(range(-n - 1, n + 2)))
            ops.append(["slice", a, b])
            st = rng.choice([-3, -2, -1, 2, 3])
            a2 = rng.choice([None] + list(range(-n - 1, n + 2)))
            b2 = rng.choice([None] + list(range(-n - 1, n + 2)))
            ops.append(["sel", a2, b2, st, list(range(*slice(a2, b2, st).indices(n)))])
            ops.append(["sel", a2, b2, st, list(range(*slice(a2, b2, st).indices(n)))])
            e = [gen_val(rng, 1, False) for _ in range(rng.randint(0, 2))]
            ops.append(["extr", e])
            ops.append(["extl", e])
        op = rng.choice(ops)
        if op[0] == "int":
            f = lambda v: v[op[1]]  # noqa: E731
        elif op[0] == "slice":
            f = lambda v: v[op[1]:op[2]]  # noqa: E731
        elif op[0] == "sel":
            f = lambda v: v[op[1]:op[2]:op[3]]  # noqa: E731
        elif op[0] == "key":
            f = lambda v: v[op[1]]  # noqa: E731
        elif op[0] == "extr":
            f = lambda v: v + type(x)(op[1])  # noqa: E731
        else:
            f = lambda v: type(x)(op[1]) + v  # noqa: E731
        case = {"x": enc(x), "op": [op[0]] + ([[enc(t) for t in op[1]]] if op[0] in ("extr", "extl") else op[1:])}
        try:
            plain = f(x)
        except Exception:
            plain = None
        try:
            vjp, val = make_vjp(f)(x)
            if plain is None:
                case.update({"out": None, "vjp": None, "g": enc(0.0), "adj": False,
                             "problem": "plain call raises but traced call returned"})
            else:
                g = like(rng, plain)
                vj = vjp(g)
                ok = deq(val, plain) and not isbox(vj) and adjoint_ok(f, x, g, vj)
                try:
                    v = like(rng, x)
                    jv = make_jvp(f)(x)(v)
                    ok = ok and deq(jv[0], plain) and veq(jv[1], lin_part(f, x, v))    # f affine: J v = f(v) - f(0)
                except NotImplementedError:       # no forward rule registered: raising is allowed
                    pass
                case.update({"out": enc(val), "vjp": enc(vj), "g": enc(g), "adj": bool(ok)})
        except Exception as ex:
            if plain is None:
                case.update({"out": None, "vjp": None, "g": enc(0.0), "adj": True})
            else:
                case.update({"out": None, "vjp": None, "g": enc(0.0), "adj": False, "problem": repr(ex)})
        dist("op=" + op[0])
        dist("raises" if case["out"] is None else "value")
        out["cases"].append(case)

    # ---- (B) oracle-only: constructors, iteration, dict methods, random access paths ----
    def oracle(name, f, x, linear=True):
        out["oracle_n"] += 1
        out["oracle_keys"].append(name + ":" + json.dumps(enc(x))[:80])
        dist("oracle:" + name)
        try:
            plain = f(x)
            vjp, val = make_vjp(f)(x)
            g = like(rng, plain)
            vj = vjp(g)
            ok = veq(val, plain) and adjoint_ok(f, x, g, vj) and deq(vspace(vj).zeros(), vspace(x).zeros())
            # a cotangent is a mapping: the order in which its dicts were built is immaterial
            ok = ok and veq(make_vjp(f)(x)[0](reorder(g)), vj)
            v = like(rng, x)
            try:
                jval, jt = make_jvp(f)(x)(v)
                ok = ok and veq(jt, lin_part(f, x, v))          # f affine: J v = f(v) - f(0)
            except NotImplementedError:
                pass
            if not ok:
                out["oracle_bad"].append({"oracle": name, "x": enc(x), "g": enc(g), "vjp": enc(vj),
                                          "site": {"oracle": name}})
        except Exception as ex:
            out["oracle_bad"].append({"oracle": name, "x": enc(x), "error": repr(ex), "site": {"oracle": name}})

    for i in range(cfg["n_oracle"]):
        x = gen_val(rng, rng.randint(1, 3))
        if isinstance(x, dict):
            ks = list(x)
            oracle("dict-values-list", lambda d: alist(d.values()), x)
            oracle("dict-items", lambda d: atuple([v for _, v in d.items()]), x)
            oracle("dict-get", lambda d: d.get(ks[0]) if ks[0] in d else 0.0, x)
            oracle("dict-iter-keys", lambda d: alist([d[k] for k in d.keys()]), x)
            oracle("dict-constructor", lambda d: adict({k + 10: d[k] for k in d}), x)
            oracle("dict-len-contains", lambda d: d[ks[-1]] if (len(d) == len(ks) and ks[-1] in d) else 0.0, x)
        else:
            n = len(x)
            for st in (-1, -2, 2, 3):
                a_ = rng.choice([None] + list(range(-n - 1, n + 2)))
                b_ = rng.choice([None] + list(range(-n - 1, n + 2)))
                oracle("stepped-slice", lambda s, a_=a_, b_=b_, st=st: s[a_:b_:st], x)
            oracle("reversed", lambda s: s[::-1], x)
            oracle("iterate-unpack", lambda s: atuple([e for e in s][::-1]), x)
            oracle("tuple-constructor", lambda s: atuple([s[j] for j in range(n)]), x)
            oracle("list-constructor", lambda s: alist([s[-1 - j] for j in range(n)]), x)
            # constructors with constant entries BEFORE and between the traced ones (forward mode routes each tangent to
            # the position of ITS entry)
            oracle("tuple-constructor-with-constants", lambda s: atuple([2.0, s[0], onp.ones(2), s[-1]]), x)
            oracle("list-constructor-with-constants", lambda s: alist([onp.zeros(2), 1.0, s[-1], 3.0, s[0]]), x)
            oracle("dict-constructor-with-constants", lambda s: adict({"c": 1.0, "t": s[-1], "d": onp.ones(2), "u": s[0]}), x)
            oracle("constructor-then-index", lambda s: alist([1.0, s[-1]])[1], x)
            oracle("len-steered", lambda s: s[len(s) - 1], x)
            oracle("slice-then-index", lambda s: s[0:n][n - 1], x)
            oracle("concat-then-slice", lambda s: (s + type(x)([s[0]]))[1:], x)
            oracle("radd-then-index", lambda s: (type(x)([s[-1]]) + s)[0], x)
            oracle("radd-whole", lambda s: type(x)([s[-1]]) + s, x)
            oracle("radd-constant-whole", lambda s: type(x)([2.0]) + s, x)
            oracle("add-constant-whole", lambda s: s + type(x)([2.0, onp.ones(2)]), x)
            oracle("nested-make", lambda s: alist([atuple([s[0], s[0]]), adict({1: s[-1]})]), x)
        # flatten commutes with grad; flatten/unflatten inverse and linear
        fx, unflatten = flatten(x)
        w = onp.array([float(rng.randint(-3, 3)) for _ in range(fx.size)])
        floss = lambda v: anp.sum(flatten(v)[0] * w)  # noqa: E731
        out["oracle_n"] += 1
        out["oracle_keys"].append("flatten:" + json.dumps(enc(x))[:80])
        dist("oracle:flatten")
        try:
            g1 = grad(lambda vec: floss(unflatten(vec)))(fx)
            g2 = flatten(grad(floss)(x))[0]
            y = like(rng, x)
            ok = bool(onp.all(g1 == g2)) and bool(onp.all(g1 == w)) and veq(unflatten(fx), x) \
                and bool(onp.all(flatten(unflatten(fx))[0] == fx)) \
                and bool(onp.all(flatten(vspace(x).add(x, y))[0] == fx + flatten(y)[0])) \
                and bool(onp.all(flatten(c_copy(x))[0] == fx)) and veq(unflatten(fx), c_copy(x)) \
                and bool(onp.all(flatten(c_reorder(x))[0] == fx)) and veq(unflatten(flatten(c_reorder(y))[0]), y) \
                and bool(onp.all(flatten(vspace(x).add(x, c_reorder(y)))[0] == fx + flatten(c_reorder(y))[0]))
            # the same layout with leaves of another kind / precision, then the first one again: each unflatten belongs to its own value
            for conv in (lambda t: t * (1.0 + 2.0j), lambda t: onp.asarray(t, dtype=onp.float32) if isinstance(t, onp.ndarray) else t, lambda t: t):
                xk = c_map(x, conv)
                fk, unk = flatten(xk)
                ok = ok and veq(unk(fk), xk) and bool(onp.all(flatten(unk(fk))[0] == fk))
            if not ok:
                out["oracle_bad"].append({"oracle": "flatten", "x": enc(x), "site": {"oracle": "flatten"}})
        except Exception as ex:
            out["oracle_bad"].append({"oracle": "flatten", "x": enc(x), "error": repr(ex),
                                      "site": {"oracle": "flatten"}})
    # ---- (B') dicts assembled in an order that is NOT the sorted order: iteration (for k in d, keys, values, items,
    #      enumerate, zip with positional weights) follows insertion order under tracing exactly as on the plain dict;
    #      the dict constructor with overriding keys ----
    for i in range(cfg["n_oracle"]):
        ks = rng.sample(range(10), rng.randint(2, 4))
        if ks == sorted(ks):
            ks = ks[::-1]
        mixed = rng.random() < 0.3
        keys = [("k%d" % k if (mixed and j % 2) else k) for j, k in enumerate(ks)] if mixed else ks
        d0 = {k: onp.array([float(rng.randint(-3, 3)), float(rng.randint(-3, 3))]) for k in keys}
        wts = [float(j + 2) for j in range(len(keys))]
        progs_d = {
            "for k in d": lambda d: sum(w * anp.sum(d[k]) for w, k in zip(wts, d)),
            "d.values()": lambda d: sum(w * anp.sum(v) for w, v in zip(wts, d.values())),
            "d.items()": lambda d: sum(w * anp.sum(v) for w, (k, v) in zip(wts, d.items())),
            "d.keys()": lambda d: sum(w * anp.sum(d[k]) for w, k in zip(wts, d.keys())),
            "enumerate(d)": lambda d: sum((j + 2.0) * anp.sum(d[k]) for j, k in enumerate(d)),
            "list(d)[0]": lambda d: anp.sum(d[list(d)[0]]) * 3.0,
            "first of items": lambda d: anp.sum(list(d.items())[0][1]) * 5.0,
            "sorted(d, key=str)": lambda d: sum(w * anp.sum(d[k]) for w, k in zip(wts, sorted(d, key=str))),
        }
        if not mixed:
            # flattening is a map of the VALUE: equal dicts assembled in different key orders flatten to the same vector,
            # and the unflatten of one of them inverts the flatten of the other
            out["oracle_n"] += 1
            out["oracle_keys"].append("flatten-key-order:%s" % (keys,))
            dist("oracle:flatten-key-order")
            try:
                ds = {k: d0[k] for k in sorted(d0)}
                f0, un0 = flatten(d0)
                fs, uns = flatten(ds)
                back = un0(fs)
                gfl = flatten(grad(lambda d: anp.sum(flatten(d)[0] * anp.arange(1.0, f0.size + 1.0)))(d0))[0]
                ok = bool(onp.all(f0 == fs)) and all(onp.all(back[k] == ds[k]) for k in ds) \
                    and bool(onp.all(gfl == onp.arange(1.0, f0.size + 1.0))) \
                    and bool(onp.all(flatten(vspace(d0).add(d0, ds))[0] == f0 + fs))
                if not ok:
                    out["oracle_bad"].append({"oracle": "flatten-key-order", "keys": [str(k) for k in keys], "flat_insertion": f0.tolist(),
                                              "flat_sorted": fs.tolist(), "site": {"oracle": "flatten-key-order"}})
            except Exception as ex:
                out["oracle_bad"].append({"oracle": "flatten-key-order", "keys": [str(k) for k in keys], "error": repr(ex),
                                          "site": {"oracle": "flatten-key-order"}})
        for pname, fd in progs_d.items():
            out["oracle_n"] += 1
            out["oracle_keys"].append("dict-order:%s:%s" % (pname, keys))
            dist("oracle:dict-iteration-order")
            try:
                plain = float(fd(d0))
                order = list(d0) if "sorted" not in pname else sorted(d0, key=str)
                wmap = {"list(d)[0]": {order[0]: 3.0}, "first of items": {order[0]: 5.0}}.get(pname, {k: w for w, k in zip(wts, order)})
                g = grad(fd)(d0)
                val = float(make_vjp(fd)(d0)[1])
                ok = val == plain and list(g) == list(d0) and all(onp.all(g[k] == wmap.get(k, 0.0)) for k in d0)
                if not ok:
                    out["oracle_bad"].append({"oracle": "dict-iteration-order:" + pname, "x": enc({j: v for j, (k, v) in enumerate(d0.items())}),
                                              "keys": [str(k) for k in keys], "value_traced": val, "value_plain": plain,
                                              "vjp": {str(k): onp.asarray(v).tolist() for k, v in g.items()}, "site": {"oracle": "dict-iteration-order"}})
            except Exception as ex:
                out["oracle_bad"].append({"oracle": "dict-iteration-order:" + pname, "keys": [str(k) for k in keys], "error": repr(ex),
                                          "site": {"oracle": "dict-iteration-order"}})
        # the dict constructor: later entries override earlier ones with the same key (keyword over mapping, pair lists)
        a0 = onp.array([1.0, 2.0])
        cons = {
            "dict(mapping, key=x)": (lambda x: adict({"lr": 5.0 * x, "m": x * 2.0}, lr=x * x)["lr"], lambda x: x * x),
            "dict(pairs with a repeated key)": (lambda x: adict([("a", x * 7.0), ("b", x), ("a", x * x * x)])["a"], lambda x: x * x * x),
            "dict(mapping, key=x) other key": (lambda x: adict({"lr": 5.0 * x, "m": x * 2.0}, lr=x * x)["m"], lambda x: x * 2.0),
            "dict(pairs) then values": (lambda x: sum(adict([("a", x * 7.0), ("b", x), ("a", x * x * x)]).values()), lambda x: x + x * x * x),
            "dict(**kwargs)": (lambda x: adict(u=x * 3.0, v=x * x)["v"] + adict(u=x * 3.0, v=x * x)["u"], lambda x: x * x + 3.0 * x),
        }
        if i == 0:
            for cname, (fc, fplain) in cons.items():
                out["oracle_n"] += 1
                out["oracle_keys"].append("dict-constructor:" + cname)
                dist("oracle:dict-constructor")
                try:
                    want = onp.asarray(grad(lambda x: anp.sum(fplain(x)))(a0))
                    got = onp.asarray(grad(lambda x: anp.sum(fc(x)))(a0))
                    valc = onp.asarray(fc(a0))
                    if not (onp.all(got == want) and onp.all(valc == fplain(a0))):
                        out["oracle_bad"].append({"oracle": "dict-constructor:" + cname, "vjp": got.tolist(), "expected": want.tolist(),
                                                  "site": {"oracle": "dict-constructor"}})
                except Exception as ex:
                    out["oracle_bad"].append({"oracle": "dict-constructor:" + cname, "error": repr(ex), "site": {"oracle": "dict-constructor"}})
    # ---- (B'') dict.get with defaults (also the very object that is stored); containers of Python-scalar leaves receiving
    #      several dense cotangents before an indexed one ----
    arr0 = onp.array([1.0, 2.0])
    dflt = {"a": arr0, "b": 3.0}
    getprogs = {
        "get(k, same object as stored)": (lambda d: anp.sum(d.get("a", arr0) * 2.0) + d["b"], {"a": 2.0 * onp.ones(2), "b": 1.0}),
        "get(k, other default)": (lambda d: anp.sum(d.get("a", onp.zeros(2)) * 2.0) + d["b"], {"a": 2.0 * onp.ones(2), "b": 1.0}),
        "get(missing, default)": (lambda d: anp.sum(d.get("zz", arr0) * 2.0) + d["b"] * 4.0, {"a": onp.zeros(2), "b": 4.0}),
        "get(k) without default": (lambda d: d.get("b") * 5.0 + anp.sum(d.get("a")), {"a": onp.ones(2), "b": 5.0}),
        "get(k, None)": (lambda d: (d.get("b", None)) * 5.0, {"a": onp.zeros(2), "b": 5.0}),
        "get(k, scalar equal to the stored scalar)": (lambda d: d.get("b", 3.0) * 7.0, {"a": onp.zeros(2), "b": 7.0}),
    }
    for gname, (fg, wantg) in getprogs.items():
        out["oracle_n"] += 1
        out["oracle_keys"].append("dict-get:" + gname)
        dist("oracle:dict-get")
        try:
            gg = grad(fg)(dflt)
            if not (set(gg) == set(wantg) and all(onp.all(onp.asarray(gg[k]) == wantg[k]) for k in wantg)) or float(make_vjp(fg)(dflt)[1]) != float(fg(dflt)):
                out["oracle_bad"].append({"oracle": "dict-get:" + gname, "vjp": {k: onp.asarray(v).tolist() for k, v in gg.items()}, "site": {"oracle": "dict-get"}})
        except Exception as ex:
            out["oracle_bad"].append({"oracle": "dict-get:" + gname, "error": repr(ex), "site": {"oracle": "dict-get"}})
    for i in range(cfg["n_oracle"]):
        leaves = tuple(float(rng.randint(1, 3)) for _ in range(rng.randint(2, 3)))
        cont = rng.choice([tuple, list])(leaves)
        uses = [rng.choice(["dense+", "rdense+", "cdense+", "cdense+", "crdense+", "index", "index", "slice"]) for _ in range(rng.randint(3, 5))]
        if i % 4 == 0:     # the indexed uses first, then only whole-container uses: the dense cotangents are summed before any indexed one arrives
            uses = sorted(uses, key=lambda u: 0 if u in ("index", "slice") else 1)
            uses = [u if u in ("index", "slice") else ("cdense+" if j % 2 else "crdense+") for j, u in enumerate(uses)]
            if uses[0] not in ("index", "slice"):
                uses[0] = "index"
        wts = [float(rng.randint(1, 4)) for _ in uses]
        kidx = [rng.randrange(len(leaves)) for _ in uses]

        def fs(t, uses=uses, wts=wts, kidx=kidx):
            tot = 0.0
            for u, w, k in zip(uses, wts, kidx):
                if u == "dense+":
                    tot = tot + w * sum(e for e in (t + type(cont)([t[k]])))
                elif u == "rdense+":
                    tot = tot + w * sum(e for e in (type(cont)([t[k]]) + t))
                elif u == "cdense+":
                    tot = tot + w * sum(e for e in (t + type(cont)([5.0])))
                elif u == "crdense+":
                    tot = tot + w * sum(e for e in (type(cont)([7.0]) + t))
                elif u == "index":
                    tot = tot + w * t[k] * t[k]
                else:
                    tot = tot + w * sum(e for e in t[k:])
            return tot
        want = [0.0] * len(leaves)
        for u, w, k in zip(uses, wts, kidx):
            if u in ("dense+", "rdense+"):
                for j in range(len(leaves)):
                    want[j] += w
                want[k] += w
            elif u in ("cdense+", "crdense+"):
                for j in range(len(leaves)):
                    want[j] += w
            elif u == "index":
                want[k] += 2.0 * w * leaves[k]
            else:
                for j in range(k, len(leaves)):
                    want[j] += w
        out["oracle_n"] += 1
        out["oracle_keys"].append("scalar-leaf-accumulation:%s:%s" % (uses, kidx))
        dist("oracle:scalar-leaf-accumulation")
        try:
            gs_ = grad(fs)(cont)
            if type(gs_) is not type(cont) or [float(v) for v in gs_] != want:
                out["oracle_bad"].append({"oracle": "scalar-leaf-accumulation", "uses": uses, "x": list(leaves), "vjp": [float(v) for v in gs_], "expected": want,
                                          "site": {"oracle": "scalar-leaf-accumulation"}})
        except Exception as ex:
            out["oracle_bad"].append({"oracle": "scalar-leaf-accumulation", "uses": uses, "error": repr(ex), "site": {"oracle": "scalar-leaf-accumulation"}})
    # ---- (C) one container OBJECT differentiated, edited in place, differentiated again: the second gradient is that
    #      of the container as it is now (the same as for a freshly built equal container) ----
    def fresh(v):
        if isinstance(v, dict):
            return {k: fresh(t) for k, t in v.items()}
        if isinstance(v, list):
            return [fresh(t) for t in v]
        if isinstance(v, tuple):
            return tuple(fresh(t) for t in v)
        return onp.array(v) if isinstance(v, onp.ndarray) else v

    def first_leaf(c):
        while isinstance(c, (list, tuple, dict)) or (isbox(c) and isinstance(c._value, (list, tuple, dict))):
            raw = c._value if isbox(c) else c
            if len(raw) == 0:
                return 0.0
            c = c[sorted(raw)[0]] if isinstance(raw, dict) else c[0]
        return c

    for i in range(cfg["n_oracle"]):
        x = gen_val(rng, rng.randint(1, 3))
        if isinstance(x, tuple):
            x = list(x)
        if len(x) == 0:
            continue
        f = lambda c: anp.sum(first_leaf(c) * 2.0)  # noqa: E731
        target = x
        if rng.random() < 0.4:       # edit a nested mutable container instead, when the access path goes through one
            t = x[sorted(x)[0]] if isinstance(x, dict) else x[0]
            if isinstance(t, (list, dict)) and len(t):
                target = t
        edit = rng.choice(["replace-leaf-other-shape", "remove-entry", "add-entry", "replace-leaf-by-container"])
        name = "edit-in-place:" + edit
        out["oracle_n"] += 1
        out["oracle_keys"].append(name + ":" + json.dumps(enc(x))[:80])
        dist("oracle:" + name)
        try:
            g1 = grad(f)(x)
            ok = deq(vspace(g1).zeros(), vspace(x).zeros())
            k0 = sorted(target)[0] if isinstance(target, dict) else 0
            klast = sorted(target)[-1] if isinstance(target, dict) else len(target) - 1
            if edit == "replace-leaf-other-shape":
                target[k0] = onp.array([float(rng.randint(1, 3)) for _ in range(rng.choice([2, 5]))]) if rng.random() < 0.6 else 4.0
            elif edit == "remove-entry":
                if klast != k0:
                    del target[klast]
            elif edit == "add-entry":
                if isinstance(target, dict):
                    target[99] = onp.ones(2)
                else:
                    target.append(onp.ones(2))
            else:
                target[k0] = [onp.array([1.0, 2.0]), 3.0]
            g2 = grad(f)(x)
            ref = grad(f)(fresh(x))
            ok = ok and veq(g2, ref) and deq(vspace(g2).zeros(), vspace(x).zeros())
            if not ok:
                out["oracle_bad"].append({"oracle": name, "x": enc(x), "vjp": enc(g2), "expected": enc(ref), "site": {"oracle": name}})
        except Exception as ex:
            out["oracle_bad"].append({"oracle": name, "x": enc(x), "error": repr(ex), "site": {"oracle": name}})
    out["oracle_keys"] = sorted(set(out["oracle_keys"]))
    print(json.dumps(out))


if __name__ == "__main__":
    main()
