"""Shared driver for the rule-family checks (C01, C02, C04, C05, C09)."""
import random

from harness import common as C

RULE_FILES = ["Rules/RealPrelude.v", "Rules/ScalarRules.v", "Rules/PolyRules.v", "Rules/Complex.v", "Containers/VSpace.v",
              "Containers/VSpaceProof.v", "Array/Broadcast.v", "Array/Run01.v", "Array/MatMul.v", "Array/Index.v", "Array/Select.v", "Array/RunSel.v", "Rules/Stats.v", "Rules/StatsProof.v", "Array/RunStats.v", "Array/Bilinear.v", "Array/BilinearClosed.v", "Array/RunBil.v", "Rules/ComplexRing.v", "Array/RunBilC.v", "Array/Realified.v", "Array/RunReal.v", "Array/LinAlg.v", "Array/Det.v", "Array/RunLin.v", "Array/BroadcastTie.v", "Array/Multilinear.v", "Array/MultilinearPair.v", "Array/RunMul.v"]
IMPORTS = ("From Coq Require Import List ZArith.\nImport ListNotations.\n"
           "From AG Require Import VSpace VSpaceProof Broadcast Run01 MatMul.\nLocal Open Scope Z_scope.\n")

BPAIRS = [((), ()), ((), (3,)), ((3,), (3,)), ((3,), (2, 3)), ((2, 1), (2, 3)), ((1, 3), (2, 3)), ((1,), (2, 2)),
          ((1, 1), (2, 3)), ((1, 3), (2, 2, 3)), ((2, 1, 2), (2, 3, 2)), ((1, 2, 1, 2), (2, 2, 3, 2)), ((3, 1), (2, 3, 2)),
          ((2, 3), (2, 3)), ((), (2, 1, 2)), ((1,), (1,)), ((1, 1, 1), (2, 1, 3)), ((2,), (3, 1, 2))]


def bcast_cases(seed, n):
    """(target shape, output shape, g, v) for the unbroadcast/broadcast correspondence."""
    rng = random.Random(seed)
    out = []
    for i in range(n):
        ts, os = BPAIRS[i % len(BPAIRS)]
        gs = 1
        for d in os:
            gs *= d
        vs = 1
        for d in ts:
            vs *= d
        out.append({"ts": list(ts), "os": list(os), "g": [rng.randint(-3, 3) for _ in range(gs)],
                    "v": [rng.randint(-3, 3) for _ in range(vs)]})
    return out


def term_b(c):
    nl = lambda l: C.clist([C.cnat(x) for x in l])  # noqa: E731
    zl = lambda l: C.clist([C.cz(x) for x in l])  # noqa: E731
    return ("{| b_ts := %s; b_os := %s; b_g := %s; b_v := %s; b_impl_unb := %s; b_impl_bc := %s; b_adjoint_ok := %s |}"
            % (nl(c["ts"]), nl(c["os"]), zl(c["g"]), zl(c["v"]), zl(c["unb"]), zl(c["bc"]), C.cbool(c["ok"])))


def sum_cases(seed, n):
    """np.sum / np.mean over every kind of axis argument: None, int, negative, tuples (also negative / unsorted), keepdims"""
    rng = random.Random(seed + 7)
    shapes = [(3,), (2, 3), (3, 1), (2, 1, 2), (2, 3, 2), (1,), (2, 2, 1, 2), (4, 1, 3)]
    out = []
    for i in range(n):
        sh = shapes[i % len(shapes)]
        nd = len(sh)
        kind = rng.random()
        if kind < 0.15:
            ax = None
        elif kind < 0.55:
            ax = rng.randrange(-nd, nd)
        else:
            k = rng.randint(1, nd)
            ax = [a if rng.random() < 0.5 else a - nd for a in rng.sample(range(nd), k)]
        size = 1
        for d in sh:
            size *= d
        out.append({"fn": "sum" if rng.random() < 0.6 else "mean", "sh": list(sh), "axis": ax, "keepdims": rng.random() < 0.5,
                    "x": [rng.randint(-3, 3) for _ in range(size)], "g": [rng.randint(-3, 3) for _ in range(size)]})
    return out


def term_s(c):
    nl = lambda l: C.clist([C.cnat(x) for x in l])  # noqa: E731
    zl = lambda l: C.clist([C.cz(x) for x in l])  # noqa: E731
    return ("{| r_sh := %s; r_axes := %s; r_x := %s; r_g := %s; r_impl_sum := %s; r_impl_vjp := %s; r_impl_jvp := %s; r_adjoint_ok := %s |}"
            % (nl(c["sh"]), nl(c["axes"]), zl(c["x"]), zl(c["g0"]), zl(c["sum"]), zl(c["vjp"]), zl(c["jvp"]), C.cbool(c["ok"])))


def mm_cases(seed, n):
    rng = random.Random(seed + 13)
    shapes = [((2, 3), (3, 2)), ((3,), (3,)), ((2, 3), (3,)), ((3,), (3, 2)), ((1, 4), (4, 1)), ((3, 1), (1, 3)), ((2, 2), (2, 2)),
              ((4, 2), (2, 3)), ((1, 1), (1, 1)), ((2,), (2, 4))]
    out = []
    for i in range(n):
        sa, sb = shapes[i % len(shapes)]
        na, nb = 1, 1
        for d in sa:
            na *= d
        for d in sb:
            nb *= d
        A = [rng.randint(-3, 3) for _ in range(na)]
        B = [rng.randint(-3, 3) for _ in range(nb)]
        rs = lambda flat, sh: flat if len(sh) == 1 else [flat[r * sh[1]:(r + 1) * sh[1]] for r in range(sh[0])]  # noqa: E731
        out.append({"fn": ["dot", "matmul", "op@"][i % 3], "A": rs(A, sa), "B": rs(B, sb), "g": [rng.randint(-3, 3) for _ in range(16)]})
    return out


def term_mm(c):
    zll = lambda M: C.clist([C.clist([C.cz(x) for x in row]) for row in M])  # noqa: E731
    return ("{| mm_m := %s; mm_n := %s; mm_p := %s; mm_A := %s; mm_B := %s; mm_G := %s; mm_impl_dot := %s; mm_impl_vjpA := %s; "
            "mm_impl_vjpB := %s; mm_impl_jvp := %s; mm_adjoint_ok := %s |}"
            % (C.cnat(c["m"]), C.cnat(c["n"]), C.cnat(c["p"]), zll(c["A2"]), zll(c["B2"]), zll(c["G2"]), zll(c["dot"]),
               zll(c["vjpA"]), zll(c["vjpB"]), zll(c["jvp"]), C.cbool(c["ok"])))


def term_sel(c):
    zl = lambda l: C.clist([C.cz(x) for x in l])  # noqa: E731
    sel = C.clist(["None" if e is None else "(Some (%s, %s))" % (C.cnat(e[0]), C.cz(e[1])) for e in c["sel"]])
    jv = "None" if c["jvp"] is None else "(Some %s)" % zl(c["jvp"])
    return ("{| q_n := %s; q_sel := %s; q_consts := %s; q_x := %s; q_y := %s; q_v := %s; q_y2 := %s; q_g := %s; q_vjp := %s; "
            "q_jvp := %s; q_ok := %s |}" % (C.cnat(c["n"]), sel, zl(c["consts"]), zl(c["x"]), zl(c["y"]), zl(c["v"]), zl(c["y2"]),
                                            zl(c["g"]), zl(c["vjp"]), jv, C.cbool(c["ok"])))


def run_select(res, tag, seed):
    """selection primitives: the model's scatter / gather against the implementation's VJP / JVP, configuration by configuration"""
    out, err = C.run_impl("impl_select.py", {"seed": seed})
    if out is None:
        return [], [], err
    cases = out["cases"]
    for k, v in out["dist"].items():
        res.count(k, v)
    codes = C.coq_eval(tag + "_sel", IMPORTS.replace("MatMul.", "MatMul Select RunSel."), "", [term_sel(c) for c in cases], "checksel")
    res.add_cases(len(cases), [("sel", c["prim"], c["tag"]) for c in cases],
                  [{"primitive": c["prim"], "configuration": c["tag"], "selection": c["sel"][:6]} for c in cases[:1]])
    bad = [dict(c, site={"primitive": c["prim"]}, primitive=c["prim"], configuration=c["tag"],
                what="selection primitive: the implementation's VJP/JVP is not the scatter/gather of its own selection")
           for c, k in zip(cases, codes) if k == 2]
    tie = [c for c, k in zip(cases, codes) if k == 1]
    return bad, tie, None


def term_bil(c):
    zl = lambda l: C.clist([C.cz(x) for x in l])  # noqa: E731
    S = C.clist(["(mk %s %s %s %s)" % (C.cnat(a), C.cnat(b), C.cnat(o), C.cz(k)) for a, b, o, k in c["S"]])
    oj = lambda j: "None" if j is None else "(Some %s)" % zl(j)  # noqa: E731
    return ("{| l_na := %s; l_nb := %s; l_no := %s; l_S := %s; l_A := %s; l_B := %s; l_g := %s; l_dA := %s; l_dB := %s; l_val := %s; "
            "l_vjpA := %s; l_vjpB := %s; l_jvpA := %s; l_jvpB := %s; l_u := %s; l_vvg := %s; l_vvB := %s; l_fvB := %s; l_ok := %s |}"
            % (C.cnat(c["na"]), C.cnat(c["nb"]), C.cnat(c["no"]), S, zl(c["A"]), zl(c["B"]), zl(c["g"]), zl(c["dA"]), zl(c["dB"]),
               zl(c["val"]), zl(c["vjpA"]), zl(c["vjpB"]), oj(c["jvpA"]), oj(c["jvpB"]), zl(c["u"]), oj(c["vvg"]), oj(c["vvB"]), oj(c["fvB"]),
               C.cbool(c["ok"])))


def run_bilinear(res, tag, seed):
    """bilinear primitives: structure constants read off NumPy; the model's contraction and rules against autograd"""
    out, err = C.run_impl("impl_bilinear.py", {"seed": seed})
    if out is None:
        return [], [], err
    cases = out["cases"]
    for k, v in out["dist"].items():
        res.count(k, v)
    imports = ("From Coq Require Import List ZArith.\nImport ListNotations.\n"
               "From AG Require Import Bilinear RunBil.\nLocal Open Scope Z_scope.\n")
    codes = C.coq_eval(tag + "_bil", imports, "", [term_bil(c) for c in cases], "checkbil")
    res.add_cases(len(cases), [("bil", c["prim"], c["tag"]) for c in cases], [{"primitive": c["prim"], "configuration": c["tag"]} for c in cases[:1]])
    bad = [dict(c, site={"primitive": c["prim"]}, primitive=c["prim"], configuration=c["tag"],
                what="bilinear primitive: shapes wrong") for c, k in zip(cases, codes) if k == 2]
    tie = [c for c, k in zip(cases, codes) if k == 1]
    return bad, tie, None


def term_bilc(c):
    gl = lambda l: C.clist(["(%s, %s)" % (C.cz(a), C.cz(b)) for a, b in l])  # noqa: E731
    S = C.clist(["(mkc %s %s %s (%s, 0))" % (C.cnat(a), C.cnat(b), C.cnat(o), C.cz(k)) for a, b, o, k in c["S"]])
    oj = lambda j: "None" if j is None else "(Some %s)" % gl(j)  # noqa: E731
    return ("{| c_na := %s; c_nb := %s; c_no := %s; c_S := %s; c_A := %s; c_B := %s; c_g := %s; c_dA := %s; c_dB := %s; c_val := %s; "
            "c_vjpA := %s; c_vjpB := %s; c_jvpA := %s; c_jvpB := %s; c_realA := %s; c_realB := %s; c_ok := %s |}"
            % (C.cnat(c["na"]), C.cnat(c["nb"]), C.cnat(c["no"]), S, gl(c["A"]), gl(c["B"]), gl(c["g"]), gl(c["dA"]), gl(c["dB"]),
               gl(c["val"]), gl(c["vjpA"]), gl(c["vjpB"]), oj(c["jvpA"]), oj(c["jvpB"]), C.cbool(c["realA"]), C.cbool(c["realB"]), C.cbool(c["ok"])))


def run_bilinear_complex(res, tag, seed):
    """bilinear primitives with complex operands (Gaussian integers): the ring-generic model instantiated with Z[i]"""
    out, err = C.run_impl("impl_bilinear.py", {"seed": seed, "complex": True})
    if out is None:
        return [], [], err
    cases = out["ccases"]
    for k, v in out["dist"].items():
        if k.startswith(("bilinear-complex", "complex")):
            res.count(k, v)
    imports = ("From Coq Require Import List ZArith.\nImport ListNotations.\n"
               "From AG Require Import Bilinear RunBilC.\nLocal Open Scope Z_scope.\n")
    codes = C.coq_eval(tag + "_bilc", imports, "", [term_bilc(c) for c in cases], "checkbilc")
    res.add_cases(len(cases), [("bilc", c["prim"], c["tag"]) for c in cases], [{"primitive": c["prim"], "configuration": c["tag"]} for c in cases[:1]])
    bad = [dict(c, site={"primitive": c["prim"]}, primitive=c["prim"], configuration=c["tag"], property="C09",
                what="bilinear primitive with complex operands: shape or kind (real / complex) of a result wrong") for c, k in zip(cases, codes) if k == 2]
    tie = [c for c, k in zip(cases, codes) if k == 1]
    return bad, tie, None


def term_mul(c):
    zl = lambda l: C.clist([C.cz(x) for x in l])  # noqa: E731
    S = C.clist(["(mkm %s %s %s)" % (C.clist([C.cnat(i) for i in idx]), C.cnat(o), C.cz(k)) for idx, o, k in c["S"]])
    oj = lambda j: "None" if j is None else "(Some %s)" % zl(j)  # noqa: E731
    return ("{| u_no := %s; u_S := %s; u_As := %s; u_g := %s; u_dAs := %s; u_val := %s; u_vjps := %s; u_jvps := %s; u_ok := %s |}"
            % (C.cnat(c["no"]), S, C.clist([zl(a) for a in c["As"]]), zl(c["g"]), C.clist([zl(a) for a in c["dAs"]]), zl(c["val"]),
               C.clist([zl(v) for v in c["vjps"]]), C.clist([oj(j) for j in c["jvps"]]), C.cbool(c["ok"])))


def run_multilinear(res, tag, seed):
    """multilinear primitives (einsum with three and four operands, chains): structure constants read off NumPy"""
    out, err = C.run_impl("impl_multilinear.py", {"seed": seed})
    if out is None:
        return [], [], err
    cases = out["cases"]
    for k, v in out["dist"].items():
        res.count(k, v)
    imports = ("From Coq Require Import List ZArith.\nImport ListNotations.\n"
               "From AG Require Import Multilinear RunMul.\nLocal Open Scope Z_scope.\n")
    codes = C.coq_eval(tag + "_mul", imports, "", [term_mul(c) for c in cases], "checkmul", shard=8)
    res.add_cases(len(cases), [("mul", c["prim"], c["tag"]) for c in cases], [{"primitive": c["prim"], "configuration": c["tag"]} for c in cases[:1]])
    bad = [dict(c, site={"primitive": c["prim"]}, primitive=c["prim"], configuration=c["tag"],
                what="multilinear primitive: shapes wrong") for c, k in zip(cases, codes) if k == 2]
    tie = [dict(c, primitive=c["prim"], configuration=c["tag"]) for c, k in zip(cases, codes) if k == 1]
    return bad, tie, None


def term_lin(c):
    ll = lambda m: C.clist([C.clist([C.cz(x) for x in row]) for row in m])  # noqa: E731
    return ("{| l_n := %s; l_p := %s; l_A := %s; l_B := %s; l_b := %s; l_T := %s; l_kind := %s; l_impl := %s; l_ok := %s |}"
            % (C.cnat(c["n"]), C.cnat(c["p"]), ll(c["A"]), ll(c["B"]), ll(c["b"]), ll(c["T"]), c["kind"], ll(c["impl"]), C.cbool(c["ok"])))


def run_linalg(res, tag, seed, n=70):
    """linalg.inv / linalg.solve on unimodular integer matrices: the rules of Array/LinAlg.v against autograd's"""
    out, err = C.run_impl("impl_linalg.py", {"seed": seed, "n": n})
    if out is None:
        return [], [], err
    cases = out["cases"]
    for k, v in out["dist"].items():
        res.count(k, v)
    imports = ("From Coq Require Import List ZArith.\nImport ListNotations.\n"
               "From AG Require Import MatMul LinAlg RunLin.\nLocal Open Scope Z_scope.\n")
    codes = C.coq_eval(tag + "_lin", imports, "", [term_lin(c) for c in cases], "checklin")
    res.add_cases(len(cases), [("lin", c["kind"], str(c["A"]), str(c["T"])) for c in cases], [{"primitive": c["kind"], "A": c["A"]} for c in cases[:1]])
    bad = [dict(c, site={"primitive": "linalg." + ("inv" if c["kind"].startswith("Inv") else "solve")}, primitive="linalg." + ("inv" if c["kind"].startswith("Inv") else "solve"),
                configuration=c["kind"], what="shape or kind of the result wrong") for c, k in zip(cases, codes) if k == 2]
    tie = [dict(c, primitive="linalg", configuration=c["kind"]) for c, k in zip(cases, codes) if k == 1]
    return bad, tie, None


def term_real(c):
    zl = lambda l: C.clist([C.cz(x) for x in l])  # noqa: E731
    S = C.clist(["(mk %s %s %s %s)" % (C.cnat(a), C.cnat(b), C.cnat(o), C.cz(k)) for a, b, o, k in c["S"]])
    jv = "None" if c["jvp"] is None else "(Some %s)" % zl(c["jvp"])
    return ("{| e_na := %s; e_no := %s; e_cin := %s; e_cout := %s; e_S := %s; e_a := %s; e_da := %s; e_dy := %s; e_g := %s; e_vjp := %s; "
            "e_jvp := %s; e_ok := %s |}" % (C.cnat(c["na"]), C.cnat(c["no"]), C.cbool(c["cin"]), C.cbool(c["cout"]), S, zl(c["a"]), zl(c["da"]),
                                            zl(c["dy"]), zl(c["g"]), zl(c["vjp"]), jv, C.cbool(c["ok"])))


def run_realified(res, tag, seed):
    """R-linear primitives on complex / real arrays (FFT family, real / imag / conj, complex constants): realified model"""
    out, err = C.run_impl("impl_realified.py", {"seed": seed})
    if out is None:
        return [], [], err
    cases = out["cases"]
    for k, v in out["dist"].items():
        res.count(k, v)
    imports = ("From Coq Require Import List ZArith.\nImport ListNotations.\n"
               "From AG Require Import Bilinear RunBil Realified RunReal.\nLocal Open Scope Z_scope.\n")
    codes = C.coq_eval(tag + "_real", imports, "", [term_real(c) for c in cases], "checkreal")
    res.add_cases(len(cases), [("real", c["prim"], c["tag"]) for c in cases], [{"primitive": c["prim"], "configuration": c["tag"]} for c in cases[:1]])
    bad = [dict(c, site={"primitive": c["prim"]}, primitive=c["prim"], configuration=c["tag"], property="C09",
                what="R-linear primitive: shape or kind (real / complex) of a result wrong, or a non-integer derivative of an integer map")
           for c, k in zip(cases, codes) if k == 2]
    tie = [c for c, k in zip(cases, codes) if k == 1]
    return bad, tie, None


def term_stat(c):
    ql = lambda l: C.clist(["(%d # %d)" % (a, b) for a, b in l])  # noqa: E731
    jv = "None" if c["jvp"] is None else "(Some %s)" % ql(c["jvp"])
    return ("{| t_fn := %s; t_d := %s; t_x := %s; t_g := %s; t_v := %s; t_val := %s; t_vjp := %s; t_jvp := %s; t_ok := %s |}"
            % (C.cnat(c["fn"]), C.cnat(c["d"]), ql(c["x"]), ql(c["g"]), ql(c["v"]), ql(c["val"]), ql(c["vjp"]), jv, C.cbool(c["ok"])))


def run_stats(res, tag, seed, n):
    """np.var / np.std / np.prod / np.cumsum: the model's rules (Rules/Stats.v, instantiated with Q) against the
    implementation, fibre by fibre, on data where float64 arithmetic is exact"""
    out, err = C.run_impl("impl_stats.py", {"seed": seed, "n": n})
    if out is None:
        return [], [], err
    cases = out["cases"]
    for k, v in out["dist"].items():
        res.count("stats:" + k, v)
    imports = ("From Coq Require Import List ZArith QArith.\nImport ListNotations.\n"
               "From AG Require Import Stats RunStats.\nLocal Open Scope Q_scope.\n")
    codes = C.coq_eval(tag + "_stat", imports, "", [term_stat(c) for c in cases], "checkstat")
    res.add_cases(len(cases), [("stat", c["tag"], str(c["x"])) for c in cases], [{"configuration": c["tag"]} for c in cases[:1]])
    names = ["var", "std", "prod", "cumsum", "linalg.norm"]
    bad = [dict(c, site={"primitive": names[c["fn"]]}, primitive=names[c["fn"]], configuration=c["tag"],
                what="reduction rule: shapes or primal value wrong") for c, k in zip(cases, codes) if k == 2]
    tie = [c for c, k in zip(cases, codes) if k == 1]
    return bad, tie, None


def run_bcast(res, tag, seed, n):
    out, err = C.run_impl("impl_bcast.py", {"cases": bcast_cases(seed, n), "sums": sum_cases(seed, 2 * n), "mms": mm_cases(seed, n)})
    if out is None:
        return [], [], err
    mms = out.get("mms", [])
    mcodes = C.coq_eval(tag + "_mm", IMPORTS, "", [term_mm(c) for c in mms], "checkmm")
    res.add_cases(len(mms), [("mm", c["fn"], str(c["A"]), str(c["B"])) for c in mms],
                  [{"product": c["fn"], "A": c["A"], "B": c["B"]} for c in mms[:1]])
    res.count("matrix-product-cases", len(mms))
    mbad = [dict(c, site={"primitive": c["fn"]}) for c, k in zip(mms, mcodes) if k == 2]
    mtie = [c for c, k in zip(mms, mcodes) if k == 1]
    sums = out.get("sums", [])
    scodes = C.coq_eval(tag + "_sum", IMPORTS, "", [term_s(c) for c in sums], "check01s")
    res.add_cases(len(sums), [("sum", c["fn"], str(c["sh"]), str(c["axis"]), c["keepdims"]) for c in sums],
                  [{"reduction": c["fn"], "shape": c["sh"], "axis": c["axis"], "keepdims": c["keepdims"]} for c in sums[:1]])
    res.count("reduction-cases", len(sums))
    sbad = [dict(c, site={"primitive": c["fn"]}) for c, k in zip(sums, scodes) if k == 2]
    stie = [c for c, k in zip(sums, scodes) if k == 1]
    cases = out["cases"]
    codes = C.coq_eval(tag, IMPORTS, "", [term_b(c) for c in cases], "check01b")
    res.add_cases(len(cases), [(str(c["ts"]), str(c["os"]), str(c["g"])) for c in cases if c["ts"] != c["os"]],
                  [{"target_shape": c["ts"], "out_shape": c["os"], "g": c["g"], "unbroadcast": c["unb"]} for c in cases[:1]])
    res.count("broadcast-pairs", len(cases))
    bad = [dict(c, site={"primitive": "unbroadcast"}) for c, k in zip(cases, codes) if k == 2] + sbad + mbad
    tie = [c for c, k in zip(cases, codes) if k == 1] + stie + mtie
    qbad, qtie, qerr = run_select(res, tag, seed)
    if qerr:
        return bad, tie, qerr
    tbad, ttie, terr = run_stats(res, tag, seed, 3 * n)
    if terr:
        return bad, tie, terr
    lbad, ltie, lerr = run_bilinear(res, tag, seed)
    if lerr:
        return bad, tie, lerr
    return bad + qbad + tbad + lbad, tie + qtie + ttie + ltie, None


def run_oracle(res, props, tier, seed, only=None):
    out, err = C.run_impl("impl_rules.py", {"seed": seed, "props": props, "tier": tier, "only": only}, timeout=2400)
    if out is None:
        return [], err
    res.add_cases(out["n"], out["keys"], out["samples"][:2])
    for k, v in out["dist"].items():
        res.count(k, v)
    res.count("calls-that-raised (allowed)", out["raised"])
    return out["bad"], None


def container_oracle(res, seed, prop):
    """the container programs of C12's harness (structure and values of gradients and tangents of nested containers): run for
    the rule properties that speak about containers too (C05: structure; C02: forward mode)"""
    out, err = C.run_impl("impl_c12.py", {"seed": seed + 3, "n": 60, "n_oracle": 25})
    if out is None:
        return [], err
    res.add_cases(out["oracle_n"], out["oracle_keys"], [])
    res.count("container-oracle-cases", out["oracle_n"])
    return [dict(b, property=prop, primitive="container:" + str(b.get("oracle")), configuration=str(b.get("x"))[:80],
                 what="container program: gradient / tangent with the wrong structure or values") for b in out["oracle_bad"]], None


def run(res, tier, seed, broken, props, with_bcast, containers=False):
    bad, tie = [], []
    if containers:
        cb, cerr = container_oracle(res, seed, props[0])
        bad = bad + cb
        if cerr:
            broken = broken + [{"obligation": "container oracle failed to run", "log": cerr[-3000:]}]
    if with_bcast:
        b, t, err = run_bcast(res, "bc_" + props[0].lower(), seed, 170 if tier == "thorough" else 51)
        bad, tie = bad + b, tie + t
        if err:
            broken = broken + [{"obligation": "broadcast correspondence failed to run", "log": err[-3000:]}]
    elif "C02" in props:
        b, t, err = run_select(res, "sel_" + props[0].lower(), seed)
        bad, tie = bad + b, tie + t
        if not err:
            b, t, err = run_stats(res, "st_" + props[0].lower(), seed, 150 if tier == "thorough" else 60)
            bad, tie = bad + b, tie + t
        if not err:
            b, t, err = run_bilinear(res, "bl_" + props[0].lower(), seed)
            bad, tie = bad + b, tie + t
        if err:
            broken = broken + [{"obligation": "selection-primitive correspondence failed to run", "log": err[-3000:]}]
    if set(props) & {"C01", "C02", "C04", "C05", "C09"}:
        b, t, err = run_bilinear_complex(res, "blc_" + props[0].lower(), seed)
        bad, tie = bad + b, tie + t
        if not err:
            b, t, err = run_realified(res, "rl_" + props[0].lower(), seed)
            bad, tie = bad + b, tie + t
        if err:
            broken = broken + [{"obligation": "complex bilinear correspondence failed to run", "log": err[-3000:]}]
    if set(props) & {"C01", "C02", "C04", "C05"}:
        b, t, err = run_multilinear(res, "ml_" + props[0].lower(), seed)
        bad, tie = bad + b, tie + t
        if err:
            broken = broken + [{"obligation": "multilinear correspondence failed to run", "log": err[-3000:]}]
    if set(props) & {"C01", "C04", "C05"}:
        b, t, err = run_linalg(res, "la_" + props[0].lower(), seed, 270 if tier == "thorough" else 90)
        bad, tie = bad + b, tie + t
        if err:
            broken = broken + [{"obligation": "linalg correspondence failed to run", "log": err[-3000:]}]
    ob, err = run_oracle(res, props, tier, seed)
    if err:
        broken = broken + [{"obligation": "implementation oracle failed to run", "log": err[-3000:]}]
    bad = bad + [b for b in ob if b["property"] in props or b["property"] == "harness"]

    def hunt():
        found = []
        for k in range(3 if tier == "thorough" else 1):
            b, _ = run_oracle(res, props, "thorough", seed + 1 + k)
            found += [x for x in b if x["property"] in props]
            if found:
                break
        return found

    C.decide(res, broken, tie, bad, hunt,
             lambda c: "%s: %s [%s, argnum %s]: %s" % (c.get("property", props[0]), c.get("primitive"), c.get("configuration"),
                                                     c.get("argnum"), c.get("what")),
             site_of=lambda c: c.get("site", {}))
