"""Implementation side of C15: (A) every exported callable x argument templates x
mode, called with a differentiated array as a positional argument: it either
raises, or returns a derivative that is non-zero wherever the NumPy function
genuinely varies with that argument (never silently constant); (B) the
explicit unsupported requests must raise at the point of use."""
import json
import random
import sys
import warnings

import numpy as onp
import autograd.numpy as anp
from autograd import make_vjp, make_jvp, grad, elementwise_grad, jacobian
from autograd.tracer import isbox

warnings.simplefilter("ignore")
onp.seterr(all="ignore")

SKIP = {"primitive", "notrace_primitive", "wrap_namespace", "wrap_intdtype", "wrap_if_boxes_inside", "metadata",
        "parse_einsum_input", "defvjp", "defjvp", "vspace", "seterr", "seterrcall", "setbufsize", "set_printoptions",
        "save", "savez", "savez_compressed", "savetxt", "load", "loadtxt", "genfromtxt", "fromfile", "memmap", "info",
        "show_config", "show_runtime", "test", "printoptions", "errstate", "busday_count", "busday_offset", "is_busday",
        "datetime_as_string", "datetime_data", "fromregex", "frombuffer", "from_dlpack", "putmask", "put", "place",
        "copyto", "put_along_axis", "fill_diagonal", "shuffle", "seed", "set_state", "get_state", "getbufsize",
        "geterr", "geterrcall", "array2string", "array_repr", "array_str", "format_float_positional",
        "format_float_scientific", "base_repr", "binary_repr", "typename", "mintypecode", "isdtype", "issubdtype",
        "can_cast", "promote_types", "min_scalar_type", "common_type", "iterable", "may_share_memory", "shares_memory",
        "nested_iters", "get_include", "get_printoptions", "astype"}


def numeric(y):
    if isinstance(y, (tuple, list)):
        return len(y) > 0 and all(numeric(t) for t in y)
    try:
        a = onp.asarray(y)
    except Exception:
        return False
    return a.dtype.kind in "fc" and a.size > 0


def flat(y):
    if isinstance(y, (tuple, list)):
        return onp.concatenate([flat(t) for t in y])
    return onp.asarray(y).astype(complex).ravel()


def templates(rng):
    """(tag, call(f, z), x).  Every call builds fresh copies of the other operands:
    many NumPy functions take an `out` array as second positional argument."""
    V = lambda: onp.array([0.7, -1.3, 2.1])  # noqa: E731
    W = lambda: onp.array([1.9, 0.4, -0.6])  # noqa: E731
    U = lambda: onp.array([-0.2, 1.1, 0.8])  # noqa: E731
    M = lambda: onp.array([[2.3, 0.7], [0.4, 1.9]])  # noqa: E731
    M2 = lambda: onp.array([[1.1, -0.5], [0.3, 2.2]])  # noqa: E731
    P = lambda: onp.array([0.6, 1.7, 2.4])  # noqa: E731
    T = []
    for nm, x in (("vec", V()), ("mat", M()), ("pos", P()), ("scalar", 0.7)):
        T.append(("f(x)[%s]" % nm, lambda f, z: f(z), x))
    T += [("f(x,y)[vec]", lambda f, z: f(z, W()), V()), ("f(y,x)[vec]", lambda f, z: f(W(), z), V()),
          ("f(x,y)[mat]", lambda f, z: f(z, M2()), M()), ("f(y,x)[mat]", lambda f, z: f(M2(), z), M()),
          ("f(x,2)", lambda f, z: f(z, 2), V()), ("f(x,1)[mat]", lambda f, z: f(z, 1), M()),
          ("f(x,0)", lambda f, z: f(z, 0), M()), ("f(x,axis=0)", lambda f, z: f(z, axis=0), M()),
          ("f(x,(4,))", lambda f, z: f(z, (4,)), onp.array([0.7, -1.3, 2.1, 0.2])),
          ("f([1,0,2],x)", lambda f, z: f(onp.array([1, 0, 2]), z), V()),
          ("f(x,y,z)", lambda f, z: f(z, W(), U()), V()),
          ("f(c,x,y)", lambda f, z: f(onp.array([True, False, True]), z, W()), V()),
          ("f(x,lo,hi)", lambda f, z: f(z, -1.0, 1.0), V()), ("f(2.0,x)", lambda f, z: f(2.0, z), P()),
          ("f('ij->ji',x)", lambda f, z: f("ij->ji", z), M()), ("f(x,[1,2])", lambda f, z: f(z, [1, 2]), V())]
    return T


def main():
    cfg = json.load(sys.stdin)
    rng = random.Random(cfg["seed"])
    out = {"n": 0, "keys": [], "bad": [], "dist": {}, "samples": [], "table": []}

    def dist(k):
        out["dist"][k] = out["dist"].get(k, 0) + 1
    names = []
    for ns, mod, omod in (("", anp, onp), ("linalg.", anp.linalg, onp.linalg), ("fft.", anp.fft, onp.fft)):
        for name in sorted(dir(mod)):
            if name.startswith("_") or name in SKIP:
                continue
            o = getattr(mod, name)
            if not callable(o) or isinstance(o, type) or not hasattr(omod, name):
                continue
            names.append((ns + name, o, getattr(omod, name)))
    only = cfg.get("only")
    T = templates(rng)
    for full, f, fnp in names:
        if only and full not in only:
            continue
        for tag, call, x in T:
            x = onp.array(x, copy=True) if isinstance(x, onp.ndarray) else x
            x_orig = onp.array(x, copy=True)
            try:
                y = call(fnp, onp.array(x, copy=True) if isinstance(x, onp.ndarray) else x)
            except BaseException:
                continue
            if not numeric(y):
                continue
            xa = onp.asarray(x, float)
            d = onp.array([0.83, -0.41, 0.57, 0.29, -0.73, 0.91][:xa.size]).reshape(xa.shape) if xa.size <= 6 else onp.ones(xa.shape)
            h = 1e-5
            try:
                yp, ym = call(fnp, (xa + h * d) if xa.shape else float(xa + h * d)), call(fnp, (xa - h * d) if xa.shape else float(xa - h * d))
                fd = (flat(yp) - flat(ym)) / (2 * h)
            except BaseException:
                continue
            varies = bool(onp.any(onp.abs(fd) > 1e-4)) and bool(onp.all(onp.isfinite(fd)))
            out["n"] += 1
            out["keys"].append(full + "|" + tag)
            dist("varies" if varies else "locally-constant")
            for mode in ("rev", "fwd"):
                try:
                    if mode == "rev":
                        vjp, val = make_vjp(lambda z: call(f, z))(x)
                        yv = flat(val) if not isbox(val) else None
                        # a generic cotangent: the derivative along d must be non-zero if the value varies
                        g = onp.conj(fd) if True else None
                        if isinstance(val, (tuple, list)):
                            outcome = "returns-container"
                            dist(mode + ":returns-container")
                            continue
                        gshape = onp.shape(val)
                        gg = onp.asarray(g).reshape(gshape) if onp.iscomplexobj(onp.asarray(val)) else onp.real(onp.asarray(g)).reshape(gshape)
                        vj = vjp(gg if gshape else (gg.reshape(())[()]))
                        deriv = float(onp.real(onp.sum(onp.asarray(vj) * d)))
                    else:
                        val, tan = make_jvp(lambda z: call(f, z))(x)(d if xa.shape else float(d))
                        if isinstance(val, (tuple, list)):
                            dist(mode + ":returns-container")
                            continue
                        deriv = float(onp.max(onp.abs(flat(tan)))) if onp.size(tan) else 0.0
                    if isbox(val):
                        out["bad"].append({"callable": full, "template": tag, "mode": mode, "what": "returned a tracer object",
                                           "site": {"callable": full, "kind": "box-escaped"}})
                        continue
                    if varies and abs(deriv) < 1e-9:
                        out["bad"].append({"callable": full, "template": tag, "mode": mode,
                                           "what": "value varies with the differentiated positional argument (finite difference %s) but the derivative returned is zero: dependence silently dropped" % onp.round(onp.real(fd[:3]), 4).tolist(),
                                           "site": {"callable": full, "kind": "silently-constant"}})
                        dist(mode + ":SILENT")
                    else:
                        dist(mode + ":derivative" if varies else mode + ":constant-ok")
                except BaseException as ex:
                    dist(mode + ":raises")
                    out["table"].append([full, tag, mode, type(ex).__name__]) if len(out["table"]) < 0 else None
            if len(out["samples"]) < 3:
                out["samples"].append({"callable": full, "template": tag, "varies": varies})

    # ---- (B) explicit unsupported requests must raise ----
    x = onp.array([0.7, -1.3, 2.1])
    m = onp.arange(6.).reshape(2, 3) + 0.5

    def must_raise(name, thunk):
        out["n"] += 1
        out["keys"].append("must-raise|" + name)
        dist("must-raise")
        try:
            r = thunk()
            out["bad"].append({"callable": name, "what": "did not raise; returned %r" % (r,), "site": {"callable": name, "kind": "no-raise"}})
        except Exception:
            pass

    def setitem(z):
        z[0] = 1.0
        return anp.sum(z)

    def iadd_item(z):
        z[1] += 2.0
        return anp.sum(z)
    must_raise("in-place assignment x[0] = 1", lambda: grad(setitem)(x.copy()))
    must_raise("in-place item update x[1] += 2", lambda: grad(iadd_item)(x.copy()))
    must_raise("grad of non-scalar output", lambda: grad(lambda z: z * 2)(x))
    must_raise("grad of complex output", lambda: grad(lambda z: anp.sum(z) * (1 + 1j))(x))
    must_raise("elementwise_grad of complex output", lambda: elementwise_grad(lambda z: z * (1 + 1j))(x))
    must_raise("grad w.r.t. int", lambda: grad(lambda z: z * 2.0)(3))
    must_raise("grad w.r.t. str", lambda: grad(lambda z: 1.0)("abc"))
    must_raise("rollaxis axis<0", lambda: grad(lambda z: anp.sum(anp.rollaxis(z, -1)))(m))
    must_raise("sort 2-D (reverse)", lambda: grad(lambda z: anp.sum(anp.sort(z) * m))(m))
    must_raise("partition 2-D (reverse)", lambda: grad(lambda z: anp.sum(anp.partition(z, 1) * m))(m))
    must_raise("norm ord=1 vector", lambda: grad(lambda z: anp.linalg.norm(z, 1))(x))
    must_raise("norm ord=inf matrix", lambda: grad(lambda z: anp.linalg.norm(z, onp.inf))(m))
    must_raise("pad mode=reflect", lambda: grad(lambda z: anp.sum(anp.pad(z, 1, mode="reflect")))(x))
    must_raise("einsum sublist form without output", lambda: grad(lambda z: anp.sum(anp.einsum(z, [0, 1], m, [0, 1])))(m))
    must_raise("atleast_2d of two arrays", lambda: grad(lambda z: anp.sum(anp.atleast_2d(z, z)[0]))(x))
    must_raise("gradient with spacing argument", lambda: grad(lambda z: anp.sum(anp.gradient(z, 2.0)))(x))
    must_raise("primitive without VJP (arange)", lambda: grad(lambda z: anp.sum(anp.arange(z)))(3.0))
    must_raise("primitive without VJP (cumprod)", lambda: grad(lambda z: anp.sum(anp.cumprod(z)))(x))
    must_raise("primitive without JVP (hypot) in forward mode", lambda: make_jvp(lambda z: anp.hypot(z, 1.0))(x)(x))
    must_raise("svd full_matrices=True (non-square)", lambda: grad(lambda z: anp.sum(anp.linalg.svd(z, full_matrices=True)[0]))(m))
    must_raise("rfftn odd last axis", lambda: grad(lambda z: anp.sum(anp.real(anp.fft.rfftn(z))))(m))
    out["keys"] = sorted(set(out["keys"]))
    print(json.dumps(out, default=str))


if __name__ == "__main__":
    main()
