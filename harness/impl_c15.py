"""Implementation side of C15: (A) every exported callable x argument templates x
mode, called with a differentiated array as a positional argument: it either
raises, or returns a derivative that is non-zero wherever the NumPy function
genuinely varies with that argument (never silently constant); (B) the
explicit unsupported requests must raise at the point of use; (C) option
sweeps over supported functions: every option combination raises or gives the
derivative a Richardson difference quotient of the NumPy function confirms."""
import json
import random
import sys
import warnings

import numpy as onp
import autograd.numpy as anp
from autograd import make_vjp, make_jvp, grad, elementwise_grad, jacobian
from autograd.tracer import isbox

warnings.simplefilter("ignore")
onp.seterr(all="ignore")

SKIP = {"primitive", "notrace_primitive", "wrap_namespace", "wrap_intdtype", "wrap_if_boxes_inside", "metadata",
        "parse_einsum_input", "defvjp", "defjvp", "vspace", "seterr", "seterrcall", "setbufsize", "set_printoptions",
        "save", "savez", "savez_compressed", "savetxt", "load", "loadtxt", "genfromtxt", "fromfile", "memmap", "info",
        "show_config", "show_runtime", "test", "printoptions", "errstate", "busday_count", "busday_offset", "is_busday",
        "datetime_as_string", "datetime_data", "fromregex", "frombuffer", "from_dlpack", "putmask", "put", "place",
        "copyto", "put_along_axis", "fill_diagonal", "shuffle", "seed", "set_state", "get_state", "getbufsize",
        "geterr", "geterrcall", "array2string", "array_repr", "array_str", "format_float_positional",
        "format_float_scientific", "base_repr", "binary_repr", "typename", "mintypecode", "isdtype", "issubdtype",
        "can_cast", "promote_types", "min_scalar_type", "common_type", "iterable", "may_share_memory", "shares_memory",
        "nested_iters", "get_include", "get_printoptions", "astype"}


def numeric(y):
    if isinstance(y, (tuple, list)):
        return len(y) > 0 and all(numeric(t) for t in y)
    try:
        a = onp.asarray(y)
    except Exception:
        return False
    return a.dtype.kind in "fc" and a.size > 0


def flat(y):
    if isinstance(y, (tuple, list)):
        return onp.concatenate([flat(t) for t in y])
    return onp.asarray(y).astype(complex).ravel()


def templates(rng):
    """(tag, call(f, z), x).  Every call builds fresh copies of the other operands:
    many NumPy functions take an `out` array as second positional argument."""
    V = lambda: onp.array([0.7, -1.3, 2.1])  # noqa: E731
    W = lambda: onp.array([1.9, 0.4, -0.6])  # noqa: E731
    U = lambda: onp.array([-0.2, 1.1, 0.8])  # noqa: E731
    M = lambda: onp.array([[2.3, 0.7], [0.4, 1.9]])  # noqa: E731
    M2 = lambda: onp.array([[1.1, -0.5], [0.3, 2.2]])  # noqa: E731
    P = lambda: onp.array([0.6, 1.7, 2.4])  # noqa: E731
    T = []
    for nm, x in (("vec", V()), ("mat", M()), ("pos", P()), ("scalar", 0.7)):
        T.append(("f(x)[%s]" % nm, lambda f, z: f(z), x))
    T += [("f(x,y)[vec]", lambda f, z: f(z, W()), V()), ("f(y,x)[vec]", lambda f, z: f(W(), z), V()),
          ("f(x,y)[mat]", lambda f, z: f(z, M2()), M()), ("f(y,x)[mat]", lambda f, z: f(M2(), z), M()),
          ("f(x,2)", lambda f, z: f(z, 2), V()), ("f(x,1)[mat]", lambda f, z: f(z, 1), M()),
          ("f(x,0)", lambda f, z: f(z, 0), M()), ("f(x,axis=0)", lambda f, z: f(z, axis=0), M()),
          ("f(x,(4,))", lambda f, z: f(z, (4,)), onp.array([0.7, -1.3, 2.1, 0.2])),
          ("f([1,0,2],x)", lambda f, z: f(onp.array([1, 0, 2]), z), V()),
          ("f(x,y,z)", lambda f, z: f(z, W(), U()), V()),
          ("f(c,x,y)", lambda f, z: f(onp.array([True, False, True]), z, W()), V()),
          ("f(x,lo,hi)", lambda f, z: f(z, -1.0, 1.0), V()), ("f(2.0,x)", lambda f, z: f(2.0, z), P()),
          ("f('ij->ji',x)", lambda f, z: f("ij->ji", z), M()), ("f(x,[1,2])", lambda f, z: f(z, [1, 2]), V())]
    return T


def main():
    cfg = json.load(sys.stdin)
    rng = random.Random(cfg["seed"])
    out = {"n": 0, "keys": [], "bad": [], "dist": {}, "samples": [], "table": []}

    def dist(k):
        out["dist"][k] = out["dist"].get(k, 0) + 1
    names = []
    for ns, mod, omod in (("", anp, onp), ("linalg.", anp.linalg, onp.linalg), ("fft.", anp.fft, onp.fft)):
        for name in sorted(dir(mod)):
            if name.startswith("_") or name in SKIP:
                continue
            o = getattr(mod, name)
            if not callable(o) or isinstance(o, type) or not hasattr(omod, name):
                continue
            names.append((ns + name, o, getattr(omod, name)))
    only = cfg.get("only")
    T = templates(rng)
    for full, f, fnp in names:
        if only and full not in only:
            continue
        for tag, call, x in T:
            x = onp.array(x, copy=True) if isinstance(x, onp.ndarray) else x
            x_orig = onp.array(x, copy=True)
            try:
                y = call(fnp, onp.array(x, copy=True) if isinstance(x, onp.ndarray) else x)
            except BaseException:
                continue
            if not numeric(y):
                continue
            xa = onp.asarray(x, float)
            d = onp.array([0.83, -0.41, 0.57, 0.29, -0.73, 0.91][:xa.size]).reshape(xa.shape) if xa.size <= 6 else onp.ones(xa.shape)
            h = 1e-5
            try:
                yp, ym = call(fnp, (xa + h * d) if xa.shape else float(xa + h * d)), call(fnp, (xa - h * d) if xa.shape else float(xa - h * d))
                fd = (flat(yp) - flat(ym)) / (2 * h)
            except BaseException:
                continue
            varies = bool(onp.any(onp.abs(fd) > 1e-4)) and bool(onp.all(onp.isfinite(fd)))
            out["n"] += 1
            out["keys"].append(full + "|" + tag)
            dist("varies" if varies else "locally-constant")
            for mode in ("rev", "fwd"):
                try:
                    if mode == "rev":
                        vjp, val = make_vjp(lambda z: call(f, z))(x)
                        yv = flat(val) if not isbox(val) else None
                        # a generic cotangent: the derivative along d must be non-zero if the value varies
                        g = onp.conj(fd) if True else None
                        if isinstance(val, (tuple, list)):
                            outcome = "returns-container"
                            dist(mode + ":returns-container")
                            continue
                        gshape = onp.shape(val)
                        gg = onp.asarray(g).reshape(gshape) if onp.iscomplexobj(onp.asarray(val)) else onp.real(onp.asarray(g)).reshape(gshape)
                        vj = vjp(gg if gshape else (gg.reshape(())[()]))
                        deriv = float(onp.real(onp.sum(onp.asarray(vj) * d)))
                    else:
                        val, tan = make_jvp(lambda z: call(f, z))(x)(d if xa.shape else float(d))
                        if isinstance(val, (tuple, list)):
                            dist(mode + ":returns-container")
                            continue
                        deriv = float(onp.max(onp.abs(flat(tan)))) if onp.size(tan) else 0.0
                    if isbox(val):
                        out["bad"].append({"callable": full, "template": tag, "mode": mode, "what": "returned a tracer object",
                                           "site": {"callable": full, "kind": "box-escaped"}})
                        continue
                    if varies and abs(deriv) < 1e-9:
                        out["bad"].append({"callable": full, "template": tag, "mode": mode,
                                           "what": "value varies with the differentiated positional argument (finite difference %s) but the derivative returned is zero: dependence silently dropped" % onp.round(onp.real(fd[:3]), 4).tolist(),
                                           "site": {"callable": full, "kind": "silently-constant"}})
                        dist(mode + ":SILENT")
                    else:
                        dist(mode + ":derivative" if varies else mode + ":constant-ok")
                except BaseException as ex:
                    dist(mode + ":raises")
                    out["table"].append([full, tag, mode, type(ex).__name__]) if len(out["table"]) < 0 else None
            if len(out["samples"]) < 3:
                out["samples"].append({"callable": full, "template": tag, "varies": varies})

    # ---- (B) explicit unsupported requests must raise ----
    x = onp.array([0.7, -1.3, 2.1])
    m = onp.arange(6.).reshape(2, 3) + 0.5

    def must_raise(name, thunk):
        out["n"] += 1
        out["keys"].append("must-raise|" + name)
        dist("must-raise")
        try:
            r = thunk()
            out["bad"].append({"callable": name, "what": "did not raise; returned %r" % (r,), "site": {"callable": name, "kind": "no-raise"}})
        except Exception:
            pass

    def setitem(z):
        z[0] = 1.0
        return anp.sum(z)

    def iadd_item(z):
        z[1] += 2.0
        return anp.sum(z)
    must_raise("in-place assignment x[0] = 1", lambda: grad(setitem)(x.copy()))
    must_raise("in-place item update x[1] += 2", lambda: grad(iadd_item)(x.copy()))
    must_raise("grad of non-scalar output", lambda: grad(lambda z: z * 2)(x))
    must_raise("grad of complex output", lambda: grad(lambda z: anp.sum(z) * (1 + 1j))(x))
    must_raise("elementwise_grad of complex output", lambda: elementwise_grad(lambda z: z * (1 + 1j))(x))
    from autograd import value_and_grad as _vag, grad_and_aux as _gaa
    from autograd.differential_operators import grad_named as _gn, multigrad_dict as _mgd
    must_raise("value_and_grad of non-scalar output", lambda: _vag(lambda z: z * 2)(x))
    must_raise("value_and_grad of complex output", lambda: _vag(lambda z: anp.sum(z) * (1 + 1j))(x))
    must_raise("value_and_grad of empty output", lambda: _vag(lambda z: z[:0])(x))
    must_raise("value_and_grad of non-scalar output, nested", lambda: grad(lambda w: anp.sum(_vag(lambda z: z * w)(x)[1]))(2.0))
    must_raise("grad_and_aux of non-scalar output", lambda: _gaa(lambda z: (z * 2, 1.0))(x))
    must_raise("grad_named of non-scalar output", lambda: _gn(lambda a_, b_: a_ * b_, "b_")(x, x))
    must_raise("multigrad_dict of non-scalar output", lambda: _mgd(lambda a_, b_: a_ * b_)(x, x))
    must_raise("grad of a size-1 but complex output", lambda: grad(lambda z: (anp.sum(z) * 1j))(x))
    must_raise("grad w.r.t. int", lambda: grad(lambda z: z * 2.0)(3))
    must_raise("grad w.r.t. str", lambda: grad(lambda z: 1.0)("abc"))
    xi = onp.array([1, 2, 3])
    must_raise("grad w.r.t. an integer array (the derivative 0.5 would be truncated to 0)", lambda: grad(lambda z: anp.sum(z.astype(float) * 0.5))(xi))
    must_raise("grad w.r.t. an integer array, plain arithmetic", lambda: grad(lambda z: anp.sum(z * 1.5))(xi))
    must_raise("jacobian w.r.t. an integer array", lambda: jacobian(lambda z: z * 2.5)(xi))
    must_raise("make_jvp w.r.t. a boolean array", lambda: make_jvp(lambda z: z * 2.0)(onp.array([True, False]))(onp.ones(2)))
    must_raise("elementwise_grad w.r.t. an unsigned array", lambda: elementwise_grad(lambda z: z * 0.5)(onp.array([1, 2], dtype="uint8")))
    # (configurations the current tree happens not to support - negative rollaxis axes, sort / partition of matrices, pad
    #  modes, einsum without an output list, gradient with a spacing, cumprod, hypot in forward mode, ... - are NOT demanded
    #  to raise: implementing one of them correctly must not alarm.  They are raise-or-right rows of the option sweep below.)

    # ---- (C) option sweeps: every option combination either raises or gives the right derivative ----
    def ror(name, fn, x0):
        """raise-or-right: fn maps a real array to a real/complex array (or tuple of them)."""
        x0 = onp.asarray(x0, float)
        r = onp.random.RandomState(abs(hash(name)) % (2 ** 31))
        d = r.uniform(0.3, 1.0, x0.shape) * r.choice([-1.0, 1.0], x0.shape)

        def scal(lib_sum, lib_real, lib_imag):
            def s(z):
                y = fn(z)
                ys = list(y) if isinstance(getattr(y, "_value", y), (tuple, list)) else [y]
                tot = 0.0
                for k, t in enumerate(ys):
                    w = onp.random.RandomState(17 + k).uniform(0.5, 1.5, onp.shape(t))
                    w2 = onp.random.RandomState(99 + k).uniform(0.5, 1.5, onp.shape(t))
                    tot = tot + lib_sum(w * lib_real(t)) + lib_sum(w2 * lib_imag(t))
                return tot
            return s
        s_np = scal(onp.sum, onp.real, onp.imag)
        s_ag = scal(anp.sum, anp.real, anp.imag)
        try:
            base = s_np(x0.copy())
            if not onp.isfinite(base):
                return
            est = []
            for h in (1e-3, 5e-4):
                c1 = (s_np(x0 + h * d) - s_np(x0 - h * d)) / (2 * h)
                c2 = (s_np(x0 + 2 * h * d) - s_np(x0 - 2 * h * d)) / (4 * h)
                est.append((4 * c1 - c2) / 3)
        except BaseException:
            return
        if not all(onp.isfinite(e) for e in est) or abs(est[0] - est[1]) > 1e-6 * (1 + abs(est[0])):
            dist("option-sweep:not-smooth-here")
            return
        out["n"] += 1
        out["keys"].append("option|" + name)
        for mode in ("rev", "fwd"):
            try:
                if mode == "rev":
                    gfull = onp.asarray(grad(s_ag)(x0.copy()))
                else:
                    got = float(make_jvp(s_ag)(x0.copy())(d)[1])
            except BaseException:
                dist("option-sweep:%s:raises" % mode)
                continue
            if mode == "rev":
                if gfull.shape != x0.shape:
                    dist("option-sweep:rev:WRONG")
                    out["bad"].append({"callable": name, "mode": mode,
                                       "what": "option accepted without an exception but the gradient has shape %s for an argument of shape %s" % (gfull.shape, x0.shape),
                                       "site": {"callable": name.split("(")[0], "kind": "wrong-option", "mode": mode}})
                    continue
                got = float(onp.sum(gfull * d))
            if not abs(got - est[1]) <= 1e-5 * (1 + abs(est[1])):
                dist("option-sweep:%s:WRONG" % mode)
                out["bad"].append({"callable": name, "mode": mode,
                                   "what": "option accepted without an exception but the derivative is wrong: d/dt f(x+t d) = %.8g numerically, autograd returns %.8g" % (est[1], got),
                                   "site": {"callable": name.split("(")[0], "kind": "wrong-option", "mode": mode}})
            else:
                dist("option-sweep:%s:right" % mode)

    # rarely used keyword options of the reductions (where=, initial=, out=None, dtype=): raise or right
    msk = onp.array([[True, False, True], [False, True, True]])
    mr_ = onp.array([[0.5, 2.5, 1.5], [4.5, 3.5, 5.75]])
    for rname in ("sum", "mean", "prod", "max", "min", "var", "std", "amax", "amin", "any-free nansum"):
        rfun = getattr(anp, rname.split()[-1])
        kws = [{"where": msk}, {"where": msk, "axis": 0}, {"where": msk[0]}, {"axis": 1, "where": msk, "keepdims": True}]
        if rname in ("sum", "prod", "max", "min", "amax", "amin"):
            kws += [{"initial": 2.0}, {"initial": 0.25, "axis": 0}, {"initial": 7.0, "where": msk}]
        kws += [{"out": None}]
        for kw in kws:
            ror("option %s(x, %s)" % (rname, ", ".join("%s=%s" % (k, "mask" if k == "where" else v) for k, v in kw.items())),
                lambda z, rfun=rfun, kw=kw: anp.reshape(rfun(z * z, **kw), (-1,)), mr_)
    ror("option x.sum(where=mask)", lambda z: anp.reshape((z * z).sum(where=msk), (1,)), mr_)
    ror("option add(x, x, where=mask) + 0", lambda z: anp.add(z, z * z, where=msk, out=None) * 1.0 if False else anp.reshape(anp.sum(anp.multiply(z, z, where=msk, out=onp.zeros((2, 3)))), (1,)), mr_)
    # configurations the pinned tree refuses: refusing is fine, so is a right answer; a wrong one is not
    xr = onp.array([0.7, -1.3, 2.1])
    mr = onp.array([[0.5, 2.5, 1.5], [4.5, 3.5, 5.75]])
    ror("unsupported-so-far: rollaxis(m,-1)", lambda z: anp.rollaxis(z, -1), mr)
    ror("unsupported-so-far: sort of a matrix", lambda z: anp.sort(z) * mr, mr)
    ror("unsupported-so-far: partition of a matrix", lambda z: anp.partition(z, 1) * mr, mr)
    ror("unsupported-so-far: einsum sublist form without output", lambda z: anp.einsum(z, [0, 1], mr, [0, 1]), mr)
    ror("unsupported-so-far: atleast_2d of two arrays", lambda z: anp.atleast_2d(z, z)[0], xr)
    ror("unsupported-so-far: gradient with a spacing", lambda z: anp.gradient(z, 2.0), xr)
    ror("unsupported-so-far: arange(traced)", lambda z: anp.reshape(anp.sum(anp.arange(z[0] * 3.0 + 3.2)) + 0.0 * z[0], (1,)), xr)
    ror("unsupported-so-far: cumprod", lambda z: anp.cumprod(z), xr)
    ror("unsupported-so-far: hypot (forward mode)", lambda z: anp.hypot(z, 1.0), xr)
    ror("unsupported-so-far: svd full_matrices=True (non-square)", lambda z: anp.linalg.svd(z, full_matrices=True)[1], mr)
    ror("unsupported-so-far: rfftn odd last axis", lambda z: anp.real(anp.fft.rfftn(z)), mr)
    ror("unsupported-so-far: pad mode=reflect", lambda z: anp.pad(z, 1, mode="reflect"), xr)
    ror("unsupported-so-far: norm ord=1 of a vector", lambda z: anp.reshape(anp.linalg.norm(z, 1), (1,)), xr)
    ror("unsupported-so-far: norm ord=inf of a matrix", lambda z: anp.reshape(anp.linalg.norm(z, onp.inf), (1,)), mr)
    # a traced value pushed through Python's scalar protocol or into a plain preallocated array: it either stays
    # differentiated or the attempt raises - it never silently becomes a constant
    import math as _math

    def _fill(z):
        buf = onp.zeros(3)
        buf[0] = z[0] * z[0]
        buf[1] = anp.sin(z[1])
        buf[2] = 1.0
        return anp.sum(anp.array(buf) * onp.array([1.0, 2.0, 3.0])) + 0.0 * anp.sum(z)

    def _fill_slice(z):
        buf = onp.empty(2)
        buf[:] = [z[0], z[1]]
        return anp.sum(buf * buf) + 0.0 * anp.sum(z)
    esc = onp.array([1.3, 0.4])
    ror("escape: buf[i] = traced", lambda z: anp.reshape(_fill(z), (1,)), esc)
    ror("escape: buf[:] = [traced, traced]", lambda z: anp.reshape(_fill_slice(z), (1,)), esc)
    ror("escape: float(traced)", lambda z: anp.reshape(float(z[0]) ** 2 + 0.0 * anp.sum(z), (1,)), esc)
    ror("escape: int(traced)", lambda z: anp.reshape(int(z[0] * 3.0) * z[1] + z[0] * z[0], (1,)), esc)
    ror("escape: complex(traced)", lambda z: anp.reshape(anp.real(complex(z[0]) ** 2) + 0.0 * anp.sum(z), (1,)), esc)
    ror("escape: math.exp(traced)", lambda z: anp.reshape(_math.exp(z[0]) + 0.0 * anp.sum(z), (1,)), esc)
    ror("escape: math.sqrt(traced)", lambda z: anp.reshape(_math.sqrt(z[0]) * z[1], (1,)), esc)
    ror("escape: numpy.float64(traced)", lambda z: anp.reshape(onp.float64(z[0]) ** 2 + 0.0 * anp.sum(z), (1,)), esc)
    for cname in ("float64", "float32", "float16", "double", "single", "longdouble", "float_", "complex128", "cdouble"):
        conv = getattr(anp, cname, None)
        if conv is not None:      # autograd.numpy's own scalar-type converters applied to a traced value
            ror("escape: autograd.numpy.%s(traced) * traced" % cname, lambda z, conv=conv: anp.reshape(anp.real(conv(z[0]) * z[0]) + z[1], (1,)), esc)
            ror("escape: autograd.numpy.%s(traced array)" % cname, lambda z, conv=conv: anp.real(conv(z) * z), esc)
    ror("escape: '%f' % traced", lambda z: anp.reshape(float("%.17g" % z[0]) ** 2 + 0.0 * anp.sum(z), (1,)), esc)
    ror("escape: traced.item()", lambda z: anp.reshape(z[0].item() ** 2 + 0.0 * anp.sum(z), (1,)), esc)
    ror("escape: traced.tolist()", lambda z: anp.reshape(z.tolist()[0] ** 2 + 0.0 * anp.sum(z), (1,)), esc)
    rs = onp.random.RandomState(5)
    vec = rs.uniform(0.4, 2.0, 4) * onp.array([1, -1, 1, -1.0])
    mat = rs.uniform(0.4, 2.0, (3, 3)) * rs.choice([-1.0, 1.0], (3, 3))
    rect = rs.uniform(0.4, 2.0, (2, 3)) * rs.choice([-1.0, 1.0], (2, 3))
    t3 = rs.uniform(0.4, 2.0, (2, 3, 2)) * rs.choice([-1.0, 1.0], (2, 3, 2))
    t4 = rs.uniform(0.4, 2.0, (2, 3, 2, 3))
    spd = mat @ mat.T + 3 * onp.eye(3)
    inf = onp.inf
    for o in (None, "fro", "nuc", 0.5, 1, -1, 2, -2, 3, 4.5, inf, -inf):
        ror("linalg.norm(vec,ord=%r)" % (o,), lambda z, o=o: anp.linalg.norm(z, o), vec)
        for xs, nm in ((mat, "mat"), (rect, "rect")):
            ror("linalg.norm(%s,ord=%r)" % (nm, o), lambda z, o=o: anp.linalg.norm(z, o), xs)
            for ax in (0, 1, -1, (0, 1), (1, 0)):
                ror("linalg.norm(%s,ord=%r,axis=%r)" % (nm, o, ax), lambda z, o=o, ax=ax: anp.linalg.norm(z, o, ax), xs)
        for ax in (0, 2, (0, 1), (1, 2), (2, 0), (0, 2), (-1, 0), (2, 1)):
            ror("linalg.norm(t3,ord=%r,axis=%r)" % (o, ax), lambda z, o=o, ax=ax: anp.linalg.norm(z, o, ax), t3)
        ror("linalg.norm(t3,ord=%r,axis=(2,0),keepdims)" % (o,), lambda z, o=o: anp.linalg.norm(z, o, (2, 0), True), t3)
        for ax in ((3, 1), (0, 3), (2, 0)):
            ror("linalg.norm(t4,ord=%r,axis=%r)" % (o, ax), lambda z, o=o, ax=ax: anp.linalg.norm(z, o, ax), t4)
    for mode in ("constant", "edge", "reflect", "symmetric", "wrap", "mean", "maximum", "minimum", "median", "linear_ramp", "empty"):
        for width in (1, (1, 2), ((1, 0), (2, 1))):
            xs = rect if isinstance(width, tuple) and isinstance(width[0], tuple) else vec
            ror("pad(mode=%s,width=%r)" % (mode, width), lambda z, mode=mode, width=width: anp.pad(z, width, mode), xs)
    for cv in (0, 2.5, (1.5, -2.0)):
        ror("pad(constant,constant_values=%r)" % (cv,), lambda z, cv=cv: anp.pad(z, 2, "constant", constant_values=cv), vec)
        ror("pad(rect,constant,constant_values=%r)" % (cv,), lambda z, cv=cv: anp.pad(z, ((1, 1), (0, 2)), "constant", constant_values=cv), rect)
    for ax in (None, 0, 1, -1):
        for fnm in ("sort", "cumsum", "cumprod", "max", "min", "sum", "prod", "mean", "std", "var", "median", "ptp",
                    "amax", "amin", "nansum", "nanmax", "nanmin", "nanmean", "nanstd", "nanvar", "logsumexp_missing"):
            if not hasattr(anp, fnm):
                continue
            f = getattr(anp, fnm)
            ror("%s(rect,axis=%r)" % (fnm, ax), lambda z, f=f, ax=ax: f(z, axis=ax), rect)
            ror("%s(t3,axis=%r)" % (fnm, ax), lambda z, f=f, ax=ax: f(z, axis=ax), t3)
        for fnm in ("max", "min", "sum", "prod", "mean", "std", "var"):
            f = getattr(anp, fnm)
            ror("%s(t3,axis=%r,keepdims)" % (fnm, ax), lambda z, f=f, ax=ax: f(z, axis=ax, keepdims=True), t3)
    for ax in ((0, 1), (0, 2), (-1, 0), (2, 1), (0, 1, 2)):
        for fnm in ("max", "min", "sum", "prod", "mean", "std", "var"):
            f = getattr(anp, fnm)
            ror("%s(t3,axis=%r)" % (fnm, ax), lambda z, f=f, ax=ax: f(z, axis=ax), t3)
            ror("%s(t3,axis=%r,keepdims)" % (fnm, ax), lambda z, f=f, ax=ax: f(z, axis=ax, keepdims=True), t3)
    for ddof in (0, 1, 2):
        for fnm in ("std", "var"):
            f = getattr(anp, fnm)
            ror("%s(rect,axis=1,ddof=%d)" % (fnm, ddof), lambda z, f=f, ddof=ddof: f(z, axis=1, ddof=ddof), mat)
            ror("%s(t3,axis=(0,2),ddof=%d)" % (fnm, ddof), lambda z, f=f, ddof=ddof: f(z, axis=(0, 2), ddof=ddof), t3)
    sq4 = rs.uniform(0.4, 2.0, (4, 4)) * rs.choice([-1.0, 1.0], (4, 4))
    for fn_ in ("fft2", "ifft2", "fftn", "ifftn", "rfft2", "rfftn", "irfft2", "irfftn"):
        for axs in ((1, -1), (0, -2), (-1, 1), (0, 0), (-1, -1), (0, 1), (1, 0), (-2, -1), (-1, 0)):
            ror("fft.%s(axes=%r)" % (fn_, axs), lambda z, fn_=fn_, axs=axs: getattr(anp.fft, fn_)(z, axes=axs), sq4)
    for kth in (0, 1, 2):
        ror("partition(vec,%d)" % kth, lambda z, kth=kth: anp.partition(z, kth), vec)
        ror("partition(rect,%d,axis=1)" % kth, lambda z, kth=kth: anp.partition(z, kth, axis=1), rect)
    for args in ((), (2.0,), (onp.array([0.0, 1.0, 3.0, 4.5]),)):
        for eo in (1, 2):
            ror("gradient(vec,*%r,edge_order=%d)" % (tuple(onp.shape(a) for a in args), eo),
                lambda z, args=args, eo=eo: anp.gradient(z, *args, edge_order=eo), vec)
    for ax in (None, 0, 1, (0, 1)):
        ror("gradient(mat,axis=%r)" % (ax,), lambda z, ax=ax: anp.gradient(z, axis=ax), mat)
    for n in (1, 2, 3):
        for ax in (0, 1, -1):
            ror("diff(rect,n=%d,axis=%d)" % (n, ax), lambda z, n=n, ax=ax: anp.diff(z, n=n, axis=ax), mat)
    ror("diff(vec,prepend)", lambda z: anp.diff(z, prepend=0.5), vec)
    ror("diff(vec,append)", lambda z: anp.diff(z, append=onp.array([0.5, 0.1])), vec)
    for reps in (2, (2,), (2, 1), (1, 2, 2), (2, 2)):
        ror("tile(rect,%r)" % (reps,), lambda z, reps=reps: anp.tile(z, reps), rect)
    for reps, ax in ((2, None), (2, 0), (2, 1), (2, -1), (onp.array([1, 2]), 0), (onp.array([2, 0, 1]), 1), ([1, 2, 1, 0, 2, 1], None)):
        ror("repeat(rect,%r,axis=%r)" % (onp.asarray(reps).tolist(), ax), lambda z, reps=reps, ax=ax: anp.repeat(z, reps, axis=ax), rect)
    for sh, ax in ((1, None), (-2, None), (1, 0), (2, 1), ((1, 2), (0, 1)), ((1, -1), (1, 1))):
        ror("roll(rect,%r,axis=%r)" % (sh, ax), lambda z, sh=sh, ax=ax: anp.roll(z, sh, axis=ax), rect)
    cube = onp.random.RandomState(11).uniform(0.4, 2.0, (3, 3, 3))
    box4 = onp.random.RandomState(12).uniform(0.4, 2.0, (2, 2, 2, 2))
    for args_ in ((), (0,), (1,), (0, 0, 1), (0, 1, 0), (0, 0, 2), (0, 2, 0), (0, 1, 2), (0, 2, 1), (0, -1, -2), (0, -2, -1), (0, -1, 0), (1, 0, 2), (-1, 1, 2)):
        ror("diagonal(cube,%s)" % ",".join(map(str, args_)), lambda z, args_=args_: anp.diagonal(z, *args_), cube)
        ror("diagonal(t3,%s)" % ",".join(map(str, args_)), lambda z, args_=args_: anp.diagonal(z, *args_), t3)
        ror("diagonal(box4,%s)" % ",".join(map(str, args_)), lambda z, args_=args_: anp.diagonal(z, *args_), box4)
        ror("cube.diagonal(%s)" % ",".join(map(str, args_)), lambda z, args_=args_: z.diagonal(*args_), cube)
    # diagonal of plain matrices (square and not), every offset, axes in both orders and counted from the end
    sq4 = onp.random.RandomState(13).uniform(0.4, 2.0, (4, 4))
    for k in (-2, -1, 0, 1, 2):
        for a1, a2 in ((0, 1), (1, 0), (-1, -2), (-2, -1)):
            ror("diagonal(rect,%d,%d,%d)" % (k, a1, a2), lambda z, k=k, a1=a1, a2=a2: anp.diagonal(z, k, a1, a2), rect)
            ror("diagonal(sq4,%d,%d,%d)" % (k, a1, a2), lambda z, k=k, a1=a1, a2=a2: anp.diagonal(z, k, a1, a2), sq4)
            ror("sq4.diagonal(%d,%d,%d)" % (k, a1, a2), lambda z, k=k, a1=a1, a2=a2: z.diagonal(k, a1, a2), sq4)
    for k in (-1, 0, 1, 2):
        ror("triu(rect,k=%d)" % k, lambda z, k=k: anp.triu(z, k), rect)
        ror("tril(t3,k=%d)" % k, lambda z, k=k: anp.tril(z, k), t3)
        ror("diag(vec,k=%d)" % k, lambda z, k=k: anp.diag(z, k), vec)
        ror("diag(rect,k=%d)" % k, lambda z, k=k: anp.diag(z, k), rect)
        ror("diagonal(t3,offset=%d,axis1=2,axis2=0)" % k, lambda z, k=k: anp.diagonal(z, k, 2, 0), t3)
        ror("trace(t3,offset=%d,axis1=2,axis2=0)" % k, lambda z, k=k: anp.trace(z, k, 2, 0), t3)
        ror("trace(rect,offset=%d)" % k, lambda z, k=k: anp.trace(z, k), rect)
        ror("rot90(rect,k=%d)" % k, lambda z, k=k: anp.rot90(z, k), rect)
    for axes in (1, 2, 0, ([1], [0]), ([0, 1], [1, 0]), ([1, 0], [0, 1]), ([2, 0], [0, 1]), ([0, 2], [1, 0])):
        B = rs.uniform(0.5, 1.5, (3, 2, 2)) if not isinstance(axes, int) or axes != 2 else rs.uniform(0.5, 1.5, (3, 2, 2))
        ror("tensordot(t3,B,axes=%r)" % (axes,), lambda z, axes=axes, B=B: anp.tensordot(z, B, axes), t3)
        ror("tensordot(B,t3,axes=%r)" % (axes,), lambda z, axes=axes, B=B: anp.tensordot(B, z, axes), t3)
    for sub in ("ij,jk->ik", "ij,kj->ik", "ii->i", "ii", "ij->", "ij,ij->", "ij,j", "...j,j", "i...,i...->...", "ij,ij,ij->i", "ji", "ij->ji", "iij->j"):
        ops = {"ii->i": (mat,), "ii": (mat,), "ij->": (mat,), "ji": (mat,), "ij->ji": (mat,), "iij->j": (rs.uniform(0.5, 1.5, (2, 2, 3)),),
               "ij,ij,ij->i": (mat, mat.T.copy(), spd)}.get(sub, (mat, spd))
        for pos in range(len(ops)):
            ror("einsum(%r,arg%d)" % (sub, pos), lambda z, sub=sub, ops=ops, pos=pos: anp.einsum(sub, *[z if i == pos else o for i, o in enumerate(ops)]), ops[pos])
    for fm in (True, False):
        ror("svd(rect,full_matrices=%r)" % fm, lambda z, fm=fm: anp.linalg.svd(z, full_matrices=fm)[1], rect)
        ror("svd(mat,full_matrices=%r)[all]" % fm, lambda z, fm=fm: (lambda u, sv, vt: anp.dot(u * sv, vt))(*anp.linalg.svd(z, full_matrices=fm)), mat)
    ror("svd(rect,compute_uv=False)", lambda z: anp.linalg.svd(z, compute_uv=False), rect)
    for uplo in ("L", "U"):
        ror("eigh(spd,UPLO=%s)" % uplo, lambda z, uplo=uplo: anp.linalg.eigh((z + z.T) / 2, uplo)[0], spd)
        ror("eigh(nonsym,UPLO=%s)" % uplo, lambda z, uplo=uplo: anp.linalg.eigh(z, uplo)[0], spd + onp.triu(mat, 1))
    for nm in ("fft", "ifft", "rfft", "irfft"):
        f = getattr(anp.fft, nm)
        for n in (None, 3, 4, 6):
            for norm in (None, "ortho", "forward"):
                ror("fft.%s(vec,n=%r,norm=%r)" % (nm, n, norm), lambda z, f=f, n=n, norm=norm: f(z, n=n, norm=norm), vec)
        for ax in (0, 1, -2):
            ror("fft.%s(t4-slice,axis=%d)" % (nm, ax), lambda z, f=f, ax=ax: f(z, axis=ax), t4[0, :, :, 0] if nm != "x" else None)
    for nm in ("fft2", "ifft2", "fftn", "ifftn", "rfft2", "rfftn", "irfft2", "irfftn"):
        f = getattr(anp.fft, nm)
        x2 = rs.uniform(0.5, 1.5, (4, 4))
        for kw in ({}, {"s": (4, 4)}, {"s": (2, 4)}, {"s": (6, 4)}, {"axes": (0, 1)}, {"axes": (1, 0)}, {"axes": (0, 0)}, {"axes": (1, 1)},
                   {"axes": (-1, -2)}, {"norm": "ortho"}, {"s": (4, 6), "axes": (1, 0)},
                   # a repeated axis together with explicit lengths (the same axis resized twice)
                   {"s": (3, 5), "axes": (0, 0)}, {"s": (2, 6), "axes": (1, 1)}, {"s": (4, 4), "axes": (0, 0)}, {"s": (6, 2), "axes": (-1, 1)},
                   {"s": (4, 2, 6), "axes": (0, 1, 0)}):
            ror("fft.%s(x,%r)" % (nm, kw), lambda z, f=f, kw=kw: f(z, **kw), x2)
    for nm in ("fftshift", "ifftshift"):
        f = getattr(anp.fft, nm)
        for ax in (None, 0, 1, (0, 1)):
            ror("fft.%s(rect,axes=%r)" % (nm, ax), lambda z, f=f, ax=ax: f(z, axes=ax), rect)
    for lo, hi in ((-0.5, 0.9), (None, 0.9), (-0.5, None), (onp.array([-0.5, 0.1, -1.0, 0.3]), 1.2)):
        ror("clip(vec,%r,%r)" % (onp.shape(lo), onp.shape(hi)), lambda z, lo=lo, hi=hi: anp.clip(z, lo, hi), vec)
    for ax in (None, 0, 1, -1):
        ror("concatenate((x,y),axis=%r)" % (ax,), lambda z, ax=ax: anp.concatenate((z, 2 * z), axis=ax), rect)
        if ax is not None:
            ror("stack((x,y),axis=%r)" % (ax,), lambda z, ax=ax: anp.stack((z, 2 * z), axis=ax), rect)
            ror("expand_dims(x,%r)" % (ax,), lambda z, ax=ax: anp.expand_dims(z, ax), rect)
            ror("flip(x,%r)" % (ax,), lambda z, ax=ax: anp.flip(z, ax), rect)
            ror("take(x,[1,0,1],axis=%r)" % (ax,), lambda z, ax=ax: anp.take(z, [1, 0, 1], axis=ax), rect)
            ror("swapaxes(t3,%r,0)" % (ax,), lambda z, ax=ax: anp.swapaxes(z, ax, 0), t3)
            ror("moveaxis(t3,%r,2)" % (ax,), lambda z, ax=ax: anp.moveaxis(z, ax, 2), t3)
            ror("rollaxis(t3,%r)" % (ax,), lambda z, ax=ax: anp.rollaxis(z, ax), t3)
            ror("squeeze-expand(t3,%r)" % (ax,), lambda z, ax=ax: anp.squeeze(anp.expand_dims(z, ax), ax), t3)
            ror("cumsum-rev(t3,%r)" % (ax,), lambda z, ax=ax: anp.cumsum(z[::-1], axis=ax), t3)
    # both operands of an arithmetic operator traced, the scalar one AT a value a fast path would single out (0, 1, 2, -1, 1/2, 3):
    # its dependence must not be dropped (x ** y at y == 2 is not square(x) when y is differentiated too)
    import operator as _op
    cvec = onp.array([0.5, 1.5, 0.25])
    for oname, of in (("add", _op.add), ("sub", _op.sub), ("mul", _op.mul), ("truediv", _op.truediv), ("pow", _op.pow)):
        for e in (0.0, 1.0, 2.0, -1.0, 0.5, 3.0):
            ror("(c*y^2+1) %s y at y=%r" % (oname, e), lambda z, of=of: of(cvec * z[0] ** 2 + 1.0, z[0]), [e])
            ror("y %s (c*y^2+1) at y=%r" % (oname, e), lambda z, of=of: of(z[0], cvec * z[0] ** 2 + 1.0), [e])
            ror("0-d: (c*y+2) %s y at y=%r" % (oname, e), lambda z, of=of: of(cvec * anp.reshape(z, ()) + 2.0, anp.reshape(z, ())), [e])
            ror("np.%s((c*y^2+1), y) at y=%r" % (oname, e), lambda z, oname=oname: getattr(anp, {"add": "add", "sub": "subtract", "mul": "multiply", "truediv": "true_divide", "pow": "power"}[oname])(cvec * z[0] ** 2 + 1.0, z[0]), [e])
    # rollaxis with every (axis, start) pair, negative ones included (refused today; if accepted, the inverse roll has to be right)
    for ax in (-3, -2, -1, 0, 1, 2):
        for st in (-3, -2, -1, 1, 2, 3):
            ror("rollaxis(t3,%r,%r)" % (ax, st), lambda z, ax=ax, st=st: anp.rollaxis(z, ax, st), t3)
    for order in ("C", "F", "A"):
        ror("reshape(rect,(3,2),order=%s)" % order, lambda z, order=order: anp.reshape(z, (3, 2), order=order), rect)
        ror("ravel(rect,order=%s)" % order, lambda z, order=order: anp.ravel(z, order=order), rect)
    for axes in (None, (1, 0, 2), (2, 0, 1), (-1, 0, 1), (0, -1, -2)):
        ror("transpose(t3,%r)" % (axes,), lambda z, axes=axes: anp.transpose(z, axes), t3)
    for kw in ({}, {"axis": 0}, {"axisa": 0, "axisb": 0}, {"axisc": 0}, {"axisa": 0, "axisb": 1, "axisc": 0}):
        Bm = rs.uniform(0.5, 1.5, (3, 3))
        ror("cross(mat,B,%r)" % (kw,), lambda z, kw=kw, Bm=Bm: anp.cross(z, Bm, **kw), mat)
        ror("cross(B,mat,%r)" % (kw,), lambda z, kw=kw, Bm=Bm: anp.cross(Bm, z, **kw), mat)
    for p in (2, 3, -1, 0.5, 0):
        ror("power(abs x,%r)" % p, lambda z, p=p: anp.power(anp.abs(z), p), vec)
        ror("linalg.matrix_power(mat,%r)" % p, lambda z, p=p: anp.linalg.matrix_power(z, p), mat) if isinstance(p, int) else None
    for nm in ("inv", "pinv", "det", "slogdet", "cholesky", "eig", "eigvals", "eigvalsh", "qr", "matrix_rank", "cond", "lstsq_missing", "tensorinv", "tensorsolve", "multi_dot"):
        if hasattr(anp.linalg, nm) and nm not in ("tensorinv", "tensorsolve", "multi_dot", "matrix_rank"):
            f = getattr(anp.linalg, nm)
            # functions of a symmetric matrix are differentiated on the symmetric subspace
            sym = (lambda z: (z + anp.swapaxes(z, -1, -2)) / 2) if nm in ("cholesky", "eigvalsh") else (lambda z: z)
            ror("linalg.%s(spd)" % nm, lambda z, f=f, sym=sym: f(sym(z)), spd)
            ror("linalg.%s(stack of spd)" % nm, lambda z, f=f, sym=sym: f(sym(z)), onp.stack([spd, spd + onp.eye(3)]))
    for bshape in ((3,), (3, 2), (2, 3, 1)):
        Bm = rs.uniform(0.5, 1.5, bshape)
        A = spd if len(bshape) < 3 else onp.stack([spd, spd + onp.eye(3)])
        ror("linalg.solve(A,b%r) wrt A" % (bshape,), lambda z, Bm=Bm: anp.linalg.solve(z, Bm), A)
        ror("linalg.solve(A,b%r) wrt b" % (bshape,), lambda z, A=A: anp.linalg.solve(A, z), Bm)

    # ---- (D) several differentiated positional arguments at once: a rule missing for ONE of them must not be
    #      swallowed because another one has a rule ----
    T2 = [("f(a(x),x)", lambda f, z: f(z * 1.5 + 0.1, z)), ("f(x,a(x))", lambda f, z: f(z, z * 0.5 - 0.2)),
          ("f(x,x)", lambda f, z: f(z, z)), ("f(a(x),b(x),x)", lambda f, z: f(z * 1.5 + 0.1, 0.5 * z - 0.2, z)),
          ("f(x,a(x),b(x))", lambda f, z: f(z, z * 1.5 + 0.1, 0.5 * z + 2.0)),
          ("f(c,a(x),x)", lambda f, z: f(onp.arange(onp.size(z)).reshape(onp.shape(z)) % 2 == 0, z * 1.5, z))]
    always = {"clip", "where", "gradient", "full", "prod", "std", "var", "repeat", "pad", "maximum", "minimum", "fmax", "fmin",
              "power", "arctan2", "hypot", "logaddexp", "logaddexp2", "dot", "matmul", "tensordot", "outer", "inner", "kron",
              "cross", "convolve", "append", "true_divide", "divide", "multiply", "subtract", "add", "mod", "remainder", "select",
              "linalg.solve", "einsum", "tile", "roll", "take", "interp", "copysign", "ldexp", "heaviside", "nextafter", "fmod",
              "float_power", "trapz", "trapezoid", "diff", "percentile", "quantile", "average", "cov", "corrcoef", "correlate",
              "searchsorted", "digitize", "polyval", "vdot", "putmask", "choose", "compress", "extract", "insert", "delete"}
    frac = 1.0 if cfg.get("tier") == "thorough" else 0.2
    xv, xm = onp.array([0.7, 1.3, 2.1]), onp.array([[2.3, 0.7], [0.4, 1.9]])
    for full, f, fnp in names:
        if only and full not in only:
            continue
        if full not in always and rng.random() > frac:
            continue
        # never hand a differentiated array to a positional `out` parameter
        if isinstance(fnp, onp.ufunc):
            max_pos = fnp.nin
        else:
            try:
                import inspect
                ps = list(inspect.signature(fnp).parameters.values())
                names_ = [q.name for q in ps if q.kind in (q.POSITIONAL_ONLY, q.POSITIONAL_OR_KEYWORD)]
                max_pos = names_.index("out") if "out" in names_ else len(names_)
                if any(q.kind == q.VAR_POSITIONAL for q in ps):
                    max_pos = 3
            except (TypeError, ValueError):
                max_pos = 2
        for tag, call in T2:
            if tag.count(",") + 1 > max_pos:
                continue
            for xn, x0 in (("vec", xv), ("mat", xm)):
                ror("%s %s[%s]" % (full, tag, xn), (lambda z, f=f, call=call: call(f, z)), x0)
    out["keys"] = sorted(set(out["keys"]))
    print(json.dumps(out, default=str))


if __name__ == "__main__":
    main()
