"""Bilinear primitives (coq/theories/Array/Bilinear.v): for each configuration the structure constants are read off
NumPy itself on all pairs of basis vectors; the model's contraction and its two reverse / forward rules are then compared
with autograd on integer data."""
import json
import random
import sys
import warnings

import numpy as onp
import autograd.numpy as anp
from autograd import make_vjp, make_jvp

warnings.simplefilter("ignore")
LOUD = (NotImplementedError, TypeError, ValueError, AssertionError, IndexError, KeyError, NameError, AttributeError)


def table():
    T = []

    def add(prim, tag, f, sa, sb):
        T.append((prim, tag, f, sa, sb))
    for name, f in (("dot", lambda m, a, b: m.dot(a, b)), ("matmul", lambda m, a, b: m.matmul(a, b)), ("op@", lambda m, a, b: a @ b)):
        for sa, sb in (((3,), (3,)), ((2, 3), (3,)), ((3,), (3, 2)), ((2, 3), (3, 2)), ((1, 3), (3, 1))):
            add(name, "%s x %s" % (sa, sb), f, sa, sb)
    for sa, sb in (((2, 2, 3), (3, 2)), ((2, 3), (2, 3, 2)), ((2, 2, 3), (2, 3, 2)), ((2, 1, 2, 3), (2, 3, 1)), ((3,), (2, 3, 2)), ((2, 2, 3), (3,))):
        add("matmul", "batched %s x %s" % (sa, sb), (lambda m, a, b: m.matmul(a, b)), sa, sb)
    for sa, sb in (((2, 2, 3), (3, 2)), ((2, 3), (2, 3, 2)), ((3,), (2, 3, 2)), ((2, 2, 3), (3,)), ((), (2, 3)), ((2, 3), ())):
        add("dot", "N-D %s x %s" % (sa, sb), (lambda m, a, b: m.dot(a, b)), sa, sb)
    for axes, sa, sb in ((1, (2, 3), (3, 2)), (2, (2, 3), (2, 3)), (0, (2,), (3,)), (([1], [0]), (2, 3), (3, 2)), (([0], [1]), (3, 2), (2, 3)),
                         (([1, 0], [0, 1]), (2, 3), (3, 2)), (([0, 2], [1, 0]), (2, 3, 2), (2, 2, 2)), (([-1], [0]), (2, 3), (3, 2)), (1, (2, 2, 3), (3, 2))):
        add("tensordot", "axes=%s %s x %s" % (axes, sa, sb), (lambda m, a, b, axes=axes: m.tensordot(a, b, axes)), sa, sb)
    for sa, sb in (((3,), (3,)), ((2, 3), (3,)), ((2, 3), (2, 3)), ((3,), (2, 3)), ((2, 2, 3), (2, 3)), ((), (3,))):
        add("inner", "%s x %s" % (sa, sb), (lambda m, a, b: m.inner(a, b)), sa, sb)
    for sa, sb in (((3,), (2,)), ((2,), (3,)), ((1,), (3,))):
        add("outer", "%s x %s" % (sa, sb), (lambda m, a, b: m.outer(a, b)), sa, sb)
    for sa, sb in (((2,), (3,)), ((2, 2), (2, 3)), ((2,), (2, 2)), ((2, 2), (2,)), ((2, 1, 2), (1, 2, 2)), ((), (3,))):
        add("kron", "%s x %s" % (sa, sb), (lambda m, a, b: m.kron(a, b)), sa, sb)
    for sub, sa, sb in (("ij,jk->ik", (2, 3), (3, 2)), ("ij,jk", (2, 3), (3, 2)), ("ij,ij->", (2, 3), (2, 3)), ("i,i", (3,), (3,)), ("i,j->ij", (2,), (3,)),
                        ("ii,i->i", (3, 3), (3,)), ("ij,ji->", (2, 3), (3, 2)), ("...ij,...jk->...ik", (2, 2, 3), (2, 3, 2)), ("...i,i->...", (2, 3), (3,)),
                        ("ij,j->ij", (2, 3), (3,)), ("ijk,kj->i", (2, 3, 2), (2, 3)), ("ij,kj->ik", (2, 3), (2, 3)), ("i,i->i", (3,), (3,)),
                        ("ii,jj->ij", (2, 2), (3, 3)), ("ij,jk->ki", (2, 3), (3, 2)), ("ij,ik->jk", (2, 3), (2, 2)), ("...,...->...", (2, 3), (2, 3)),
                        ("ij,...j->i...", (2, 3), (2, 3)), ("i...,i...->...", (2, 3), (2, 3))):
        add("einsum", "'%s' %s x %s" % (sub, sa, sb), (lambda m, a, b, sub=sub: m.einsum(sub, a, b)), sa, sb)
    add("einsum", "operand form [0,1],[1,2]->[0,2]", (lambda m, a, b: m.einsum(a, [0, 1], b, [1, 2], [0, 2])), (2, 3), (3, 2))
    add("einsum", "operand form implicit output", (lambda m, a, b: m.einsum(a, [0, 1], b, [1, 2])), (2, 3), (3, 2))
    add("einsum", "operand form with Ellipsis", (lambda m, a, b: m.einsum(a, [Ellipsis, 0], b, [0, 1], [Ellipsis, 1])), (2, 3), (3, 2))
    for mode in ("full", "same", "valid"):
        add("convolve", "mode=%s (4,) * (3,)" % mode, (lambda m, a, b, mode=mode: m.convolve(a, b, mode)), (4,), (3,))
        add("convolve", "mode=%s (2,) * (4,)" % mode, (lambda m, a, b, mode=mode: m.convolve(a, b, mode)), (2,), (4,))
        add("correlate", "mode=%s" % mode, (lambda m, a, b, mode=mode: m.correlate(a, b, mode)), (4,), (3,))
    add("cross", "3-vectors", (lambda m, a, b: m.cross(a, b)), (3,), (3,))
    add("cross", "rows of (2,3)", (lambda m, a, b: m.cross(a, b)), (2, 3), (2, 3))
    add("cross", "(2,3) x (3,) broadcast", (lambda m, a, b: m.cross(a, b)), (2, 3), (3,))
    add("cross", "axis=0", (lambda m, a, b: m.cross(a, b, axis=0)), (3, 2), (3, 2))
    add("cross", "2-vectors (scalar result)", (lambda m, a, b: m.cross(a, b)), (2,), (2,))
    for sa, sb in (((2, 3), (3,)), ((2, 1), (1, 3)), ((), (2, 2)), ((2, 3), (2, 3))):
        add("multiply", "%s x %s" % (sa, sb), (lambda m, a, b: m.multiply(a, b)), sa, sb)
        add("op*", "%s x %s" % (sa, sb), (lambda m, a, b: a * b), sa, sb)
    add("vdot", "(3,) . (3,)", (lambda m, a, b: m.vdot(a, b)), (3,), (3,))
    add("trace of a product", "trace(a @ b)", (lambda m, a, b: m.trace(m.matmul(a, b))), (2, 3), (3, 2))
    add("linalg.multi_dot-like", "a @ b.T", (lambda m, a, b: m.matmul(a, b.T)), (2, 3), (2, 3))
    return T


def main():
    cfg = json.load(sys.stdin)
    rng = random.Random(cfg["seed"])
    out = {"cases": [], "dist": {}, "skipped": []}

    def dist(k):
        out["dist"][k] = out["dist"].get(k, 0) + 1
    for prim, tag, f, sa, sb in table():
        na, nb = int(onp.prod(sa)) if sa else 1, int(onp.prod(sb)) if sb else 1
        if not hasattr(onp, prim) and prim in ("correlate",):
            continue
        try:
            y0 = onp.asarray(f(onp, onp.zeros(sa), onp.zeros(sb)))
        except Exception as ex:
            out["skipped"].append("%s %s: NumPy rejects it: %r" % (prim, tag, ex))
            continue
        no = int(y0.size)
        S = []
        try:
            for i in range(na):
                ea = onp.zeros(na)
                ea[i] = 1.0
                for j in range(nb):
                    eb = onp.zeros(nb)
                    eb[j] = 1.0
                    r = onp.asarray(f(onp, ea.reshape(sa), eb.reshape(sb))).ravel()
                    for o in onp.nonzero(r)[0]:
                        S.append([i, j, int(o), int(r[o])])
        except Exception as ex:
            out["skipped"].append("%s %s: %r" % (prim, tag, ex))
            continue
        A = onp.array([float(rng.randint(-3, 3)) for _ in range(na)]).reshape(sa)
        B = onp.array([float(rng.randint(-3, 3)) for _ in range(nb)]).reshape(sb)
        dA = onp.array([float(rng.randint(-2, 2)) for _ in range(na)]).reshape(sa)
        dB = onp.array([float(rng.randint(-2, 2)) for _ in range(nb)]).reshape(sb)
        y = onp.asarray(f(onp, A, B))
        g = onp.array([float(rng.randint(-3, 3)) for _ in range(no)]).reshape(y.shape)
        case = {"prim": prim, "tag": tag, "na": na, "nb": nb, "no": no, "S": S, "A": [int(t) for t in A.ravel()], "B": [int(t) for t in B.ravel()],
                "g": [int(t) for t in g.ravel()], "dA": [int(t) for t in dA.ravel()], "dB": [int(t) for t in dB.ravel()],
                "val": [int(t) for t in y.ravel()]}
        As, Bs = (A if sa else float(A)), (B if sb else float(B))
        gs = g if y.shape else float(g)
        ok = True
        try:
            vA, val = make_vjp(lambda z: f(anp, z, Bs))(As)
            vjA = onp.asarray(vA(gs))
            vjB = onp.asarray(make_vjp(lambda z: f(anp, As, z))(Bs)[0](gs))
            ok = vjA.shape == tuple(sa) and vjB.shape == tuple(sb) and onp.shape(val) == y.shape
            case["vjpA"], case["vjpB"] = [int(t) for t in vjA.ravel()], [int(t) for t in vjB.ravel()]
        except LOUD as ex:
            dist("reverse-mode-raises (allowed)")
            out["skipped"].append("%s %s: %r" % (prim, tag, ex))
            continue
        for nm, fz, x0, d in (("jvpA", lambda z: f(anp, z, Bs), As, dA if sa else float(dA)), ("jvpB", lambda z: f(anp, As, z), Bs, dB if sb else float(dB))):
            try:
                jv = onp.asarray(make_jvp(fz)(x0)(d)[1])
                ok = ok and jv.shape == y.shape
                case[nm] = [int(t) for t in jv.ravel()]
            except LOUD:
                case[nm] = None
                dist("forward-mode-raises (allowed)")
        # second order: the rules of the reverse rule for A (what reverse-over-reverse and forward-over-reverse differentiate)
        u = onp.array([float(rng.randint(-2, 2)) for _ in range(na)]).reshape(sa)
        us = u if sa else float(u)
        case["u"] = [int(t) for t in u.ravel()]
        vjp_of = lambda g_, b_: make_vjp(lambda z: f(anp, z, b_))(As)[0](g_)   # noqa: E731
        for nm, thunk, shp in (("vvg", lambda: make_vjp(lambda g_: vjp_of(g_, Bs))(gs)[0](us), y.shape),
                               ("vvB", lambda: make_vjp(lambda b_: vjp_of(gs, b_))(Bs)[0](us), tuple(sb)),
                               ("fvB", lambda: make_jvp(lambda b_: vjp_of(gs, b_))(Bs)(dB if sb else float(dB))[1], tuple(sa))):
            try:
                r2 = onp.asarray(thunk())
                ok = ok and r2.shape == shp
                case[nm] = [int(t) for t in r2.ravel()] if r2.shape == shp else []
                dist("second-order:" + nm)
            except LOUD:
                case[nm] = None
                dist("second-order-raises (allowed)")
        case["ok"] = bool(ok)
        dist("bilinear:" + prim)
        out["cases"].append(case)
    # ---- the same configurations with complex operands (Gaussian integers): complex x complex, real x complex, complex x real ----
    out["ccases"] = []

    def gi(z):
        return [[int(t.real), int(t.imag)] for t in onp.asarray(z, complex).ravel()]
    for prim, tag, f, sa, sb in (table() if cfg.get("complex") else []):
        if prim in ("vdot", "convolve", "correlate"):
            continue                                   # vdot conjugates its first argument: not C-bilinear
        na, nb = int(onp.prod(sa)) if sa else 1, int(onp.prod(sb)) if sb else 1
        try:
            y0 = onp.asarray(f(onp, onp.zeros(sa), onp.zeros(sb)))
            S = []
            for i in range(na):
                ea = onp.zeros(na)
                ea[i] = 1.0
                for j in range(nb):
                    eb = onp.zeros(nb)
                    eb[j] = 1.0
                    r = onp.asarray(f(onp, ea.reshape(sa), eb.reshape(sb))).ravel()
                    for o in onp.nonzero(r)[0]:
                        S.append([i, j, int(o), int(r[o])])
        except Exception as ex:
            continue
        no = int(y0.size)
        for realA, realB in ((False, False), (True, False), (False, True)):
            def rnd(shape, real, lo=-3, hi=3):
                n_ = int(onp.prod(shape)) if shape else 1
                re_ = onp.array([float(rng.randint(lo, hi)) for _ in range(n_)])
                im_ = onp.zeros(n_) if real else onp.array([float(rng.randint(lo, hi)) for _ in range(n_)])
                a_ = (re_ if real else re_ + 1j * im_).reshape(shape)
                return a_
            A, B = rnd(sa, realA), rnd(sb, realB)
            dA, dB = rnd(sa, realA, -2, 2), rnd(sb, realB, -2, 2)
            y = onp.asarray(f(onp, A, B))
            g = rnd(y.shape, False)
            case = {"prim": prim, "tag": tag + (" [%s x %s]" % ("real" if realA else "complex", "real" if realB else "complex")),
                    "na": na, "nb": nb, "no": no, "S": S, "A": gi(A), "B": gi(B), "g": gi(g), "dA": gi(dA), "dB": gi(dB), "val": gi(y),
                    "realA": realA, "realB": realB}
            As, Bs = (A if sa else A.reshape(())[()]), (B if sb else B.reshape(())[()])
            gs = g if y.shape else g.reshape(())[()]
            try:
                vjA = onp.asarray(make_vjp(lambda z: f(anp, z, Bs))(As)[0](gs))
                vjB = onp.asarray(make_vjp(lambda z: f(anp, As, z))(Bs)[0](gs))
                ok = vjA.shape == tuple(sa) and vjB.shape == tuple(sb) and (onp.iscomplexobj(vjA) != realA) and (onp.iscomplexobj(vjB) != realB)
                case["vjpA"], case["vjpB"] = gi(vjA), gi(vjB)
            except LOUD as ex:
                dist("complex: reverse-mode-raises (allowed)")
                continue
            for nm, fz, x0, d in (("jvpA", lambda z: f(anp, z, Bs), As, dA if sa else dA.reshape(())[()]),
                                  ("jvpB", lambda z: f(anp, As, z), Bs, dB if sb else dB.reshape(())[()])):
                try:
                    jv = onp.asarray(make_jvp(fz)(x0)(d)[1])
                    ok = ok and jv.shape == y.shape
                    case[nm] = gi(jv)
                except LOUD:
                    case[nm] = None
            case["ok"] = bool(ok)
            dist("bilinear-complex:" + prim)
            out["ccases"].append(case)
    print(json.dumps(out))


if __name__ == "__main__":
    main()
