"""numpy_vjps.unbroadcast and NumPy broadcasting on given (target, output) shapes."""
import json
import sys
import numpy as onp
import autograd.numpy as anp
from autograd.numpy.numpy_vjps import unbroadcast

cfg = json.load(sys.stdin)
out = {"cases": []}
for c in cfg["cases"]:
    ts, os = tuple(c["ts"]), tuple(c["os"])
    g = onp.array(c["g"], float).reshape(os)
    v = onp.array(c["v"], float).reshape(ts)
    target = onp.zeros(ts)
    try:
        u = onp.asarray(unbroadcast(g, anp.metadata(target)))
        bc = onp.broadcast_to(v, os)
        ok = u.shape == ts and float(onp.sum(g * bc)) == float(onp.sum(u * v))
        c.update({"unb": [int(x) for x in u.ravel()], "bc": [int(x) for x in bc.ravel()], "ok": bool(ok)})
    except Exception as ex:
        c.update({"unb": [], "bc": [], "ok": False, "error": repr(ex)})
    out["cases"].append(c)
# ---- reductions: np.sum / np.mean over every kind of axis argument, and their derivative rules ----
from autograd import make_vjp, make_jvp  # noqa: E402
out["sums"] = []
for c in cfg.get("sums", []):
    sh = tuple(c["sh"])
    ax = c["axis"]
    ax_arg = None if ax is None else (tuple(ax) if isinstance(ax, list) else ax)
    kd = c["keepdims"]
    x = onp.array(c["x"], float).reshape(sh)
    nd = len(sh)
    norm = list(range(nd)) if ax is None else sorted({a % nd for a in (ax if isinstance(ax, list) else [ax])}) if nd else []
    nred = 1
    for a in norm:
        nred *= sh[a]
    try:
        f = (lambda z: anp.sum(z, axis=ax_arg, keepdims=kd)) if c["fn"] == "sum" else (lambda z: anp.mean(z, axis=ax_arg, keepdims=kd))
        scale = 1 if c["fn"] == "sum" else nred
        y = onp.sum(x, axis=ax_arg, keepdims=kd)
        g0 = onp.array(c["g"][:y.size], float).reshape(y.shape)
        vjp, val = make_vjp(f)(x)
        vj = onp.asarray(vjp(g0 * scale))
        jv = onp.asarray(make_jvp(f)(x)(x * scale)[1])
        ok = vj.shape == x.shape and float(onp.sum(g0 * y)) == float(onp.sum(vj * x)) and onp.shape(val) == y.shape \
            and bool(onp.all(onp.asarray(val) * scale == y))
        c.update({"axes": norm, "sum": [int(t) for t in y.ravel()], "vjp": [int(t) for t in vj.ravel()],
                  "jvp": [int(t) for t in jv.ravel()], "g0": [int(t) for t in g0.ravel()], "ok": bool(ok)})
    except Exception as ex:
        c.update({"axes": norm, "sum": [], "vjp": [], "jvp": [], "g0": [], "ok": False, "error": repr(ex)})
    out["sums"].append(c)
# ---- dot / matmul / @ on matrices and vectors (1-D operands are a row / a column) ----
out["mms"] = []
for c in cfg.get("mms", []):
    A = onp.array(c["A"], float)
    B = onp.array(c["B"], float)
    fn = {"dot": anp.dot, "matmul": anp.matmul, "op@": (lambda a, b: a @ b)}[c["fn"]]
    try:
        y = onp.dot(A, B)
        G = onp.array(c["g"][:y.size], float).reshape(y.shape)
        vA = onp.asarray(make_vjp(lambda z: fn(z, B))(A)[0](G))
        vB = onp.asarray(make_vjp(lambda z: fn(A, z))(B)[0](G))
        jv = onp.asarray(make_jvp(lambda z: fn(z, B))(A)(vA)[1])
        ok = vA.shape == A.shape and vB.shape == B.shape and onp.shape(jv) == y.shape
        for idx in onp.ndindex(*A.shape):
            d = onp.zeros(A.shape)
            d[idx] = 1.0
            ok = ok and float(onp.sum(G * onp.dot(d, B))) == float(onp.sum(vA * d))
        for idx in onp.ndindex(*B.shape):
            d = onp.zeros(B.shape)
            d[idx] = 1.0
            ok = ok and float(onp.sum(G * onp.dot(A, d))) == float(onp.sum(vB * d))
        m, n = (1, A.shape[0]) if A.ndim == 1 else A.shape
        p = 1 if B.ndim == 1 else B.shape[1]
        as2 = lambda M, r, q: [[int(t) for t in row] for row in onp.asarray(M, float).reshape(r, q)]  # noqa: E731
        c.update({"m": m, "n": n, "p": p, "A2": as2(A, m, n), "B2": as2(B, n, p), "G2": as2(G, m, p), "dot": as2(y, m, p),
                  "vjpA": as2(vA, m, n), "vjpB": as2(vB, n, p), "jvp": as2(jv, m, p), "ok": bool(ok)})
    except Exception as ex:
        c.update({"m": 0, "n": 0, "p": 0, "A2": [], "B2": [], "G2": [], "dot": [], "vjpA": [], "vjpB": [], "jvp": [], "ok": False,
                  "error": repr(ex)})
    out["mms"].append(c)
print(json.dumps(out))
