"""numpy_vjps.unbroadcast and NumPy broadcasting on given (target, output) shapes."""
import json
import sys
import numpy as onp
import autograd.numpy as anp
from autograd.numpy.numpy_vjps import unbroadcast

cfg = json.load(sys.stdin)
out = {"cases": []}
for c in cfg["cases"]:
    ts, os = tuple(c["ts"]), tuple(c["os"])
    g = onp.array(c["g"], float).reshape(os)
    v = onp.array(c["v"], float).reshape(ts)
    target = onp.zeros(ts)
    try:
        u = onp.asarray(unbroadcast(g, anp.metadata(target)))
        bc = onp.broadcast_to(v, os)
        ok = u.shape == ts and float(onp.sum(g * bc)) == float(onp.sum(u * v))
        c.update({"unb": [int(x) for x in u.ravel()], "bc": [int(x) for x in bc.ravel()], "ok": bool(ok)})
    except Exception as ex:
        c.update({"unb": [], "bc": [], "ok": False, "error": repr(ex)})
    out["cases"].append(c)
print(json.dumps(out))
