"""np.var / np.std / np.prod / np.cumsum against the model of coq/theories/Rules/Stats.v, fibre by fibre.  The data are
chosen so that every float64 operation involved is exact (fibre lengths, N - ddof, spreads and factors are powers of two),
hence the rationals the model computes must equal the floats autograd returns."""
import json
import random
import sys
import warnings
from fractions import Fraction

import numpy as onp
import autograd.numpy as anp
from autograd import make_vjp, make_jvp

warnings.simplefilter("ignore")
LOUD = (NotImplementedError, TypeError, ValueError, AssertionError, IndexError, KeyError, NameError, AttributeError)


def q(t):
    f = Fraction(float(t))
    return [f.numerator, f.denominator]


def fibres(shape, axis):
    """list of (output flat position, flat input positions) for a reduction over `axis`"""
    nd = len(shape)
    axes = list(range(nd)) if axis is None else sorted({a % nd for a in (axis if isinstance(axis, tuple) else (axis,))})
    lab = onp.arange(int(onp.prod(shape))).reshape(shape)
    keep = [a for a in range(nd) if a not in axes]
    moved = onp.transpose(lab, keep + axes).reshape(int(onp.prod([shape[a] for a in keep])) if keep else 1, -1)
    return [list(map(int, row)) for row in moved]


def main():
    cfg = json.load(sys.stdin)
    rng = random.Random(cfg["seed"])
    out = {"cases": [], "dist": {}, "skipped": []}

    def dist(k):
        out["dist"][k] = out["dist"].get(k, 0) + 1
    shapes = [(4,), (2, 4), (4, 2), (2, 4, 2), (8,), (2, 2, 2), (2,), (1, 4)]
    for it in range(cfg["n"]):
        fn = ["var", "std", "prod", "cumsum", "norm"][it % 5]
        shape = rng.choice(shapes)
        nd = len(shape)
        n = int(onp.prod(shape))
        if fn == "cumsum":
            axis = rng.choice([None] + list(range(-nd, nd)))
        else:
            kind = rng.random()
            axis = None if kind < 0.25 else rng.randrange(-nd, nd) if kind < 0.7 else \
                tuple(a if rng.random() < 0.5 else a - nd for a in rng.sample(range(nd), rng.randint(1, nd)))
        if fn == "norm" and isinstance(axis, tuple):
            if nd < 2:
                continue
            axis = tuple(rng.sample(range(-nd, nd), 2))
            if axis[0] % nd == axis[1] % nd:
                continue
        keepdims = rng.random() < 0.4 and fn != "cumsum"
        if fn == "cumsum":
            x = onp.array([float(rng.randint(-3, 3)) for _ in range(n)]).reshape(shape)
            fibs = None
        else:
            fibs = fibres(shape, axis)
            N = len(fibs[0])
            x = onp.zeros(n)
            for row in fibs:
                if fn == "prod":
                    vals = [rng.choice([1.0, -1.0, 2.0, -2.0, 0.5, 4.0, -0.5]) for _ in row]
                elif fn == "norm":
                    k = rng.choice([0.5, 1.0, 2.0, 4.0])
                    vals = [k * rng.choice([1, -1]) for _ in row]
                else:
                    a, k = float(rng.randint(-3, 3)), float(rng.choice([1, 2, 4])) / 2
                    half = [a] * (N // 2) + [a + 2 * k] * (N - N // 2)
                    rng.shuffle(half)
                    vals = half if (fn == "std" or rng.random() < 0.5) else [float(rng.randint(-4, 4)) for _ in row]
                for p, t in zip(row, vals):
                    x[p] = t
            x = x.reshape(shape)
        ddof = 0
        if fn == "norm" and len(fibs[0]) not in (1, 4, 16):
            continue
        if fn in ("var", "std"):
            N = len(fibs[0])
            ddof = rng.choice([d for d in range(N) if (N - d) & (N - d - 1) == 0 and (fn == "var" or d == 0)] or [0])
            if N & (N - 1) or (fn == "std" and N < 2):
                continue
        kw = {}
        if fn == "norm":
            kw = {"axis": axis}          # (the norm rules take no keepdims: passing it raises, which is allowed)
            if rng.random() < 0.5:
                kw["ord"] = "fro" if (isinstance(axis, tuple) or (axis is None and nd == 2)) else 2 if (axis is not None or nd == 1) else None
        elif fn != "cumsum":
            kw = {"axis": axis, "keepdims": keepdims}
            if fn in ("var", "std"):
                kw["ddof"] = ddof
        else:
            kw = {"axis": axis}
        f = (lambda z, kw=kw: anp.linalg.norm(z, **kw)) if fn == "norm" else (lambda z, fn=fn, kw=kw: getattr(anp, fn)(z, **kw))  # noqa: E731
        try:
            y = onp.asarray(onp.linalg.norm(x, **kw) if fn == "norm" else getattr(onp, fn)(x, **kw))
        except Exception as ex:
            out["skipped"].append("%s %s %r" % (fn, kw, ex))
            continue
        g = onp.array([float(rng.choice([-2, -1, 1, 2, 4])) for _ in range(y.size)]).reshape(y.shape)
        v = onp.array([float(rng.randint(-2, 2)) for _ in range(n)]).reshape(shape)
        tag = "%s shape=%s %s" % (fn, shape, kw)
        try:
            vjp, val = make_vjp(f)(x)
            vj = onp.asarray(vjp(g if y.shape else float(g)))
        except LOUD as ex:
            dist("reverse-mode-raises (allowed)")
            out["skipped"].append("%s: %r" % (tag, ex))
            continue
        try:
            jv = onp.asarray(make_jvp(f)(x)(v)[1])
        except LOUD:
            jv = None
            dist("forward-mode-raises (allowed)")
        ok = vj.shape == x.shape and onp.shape(val) == y.shape and (jv is None or jv.shape == y.shape) \
            and bool(onp.all(onp.asarray(val) == y))
        dist(fn)
        dist("axis=" + ("None" if axis is None else "tuple" if isinstance(axis, tuple) else "int"))
        base = {"fn": {"var": 0, "std": 1, "prod": 2, "cumsum": 3, "norm": 4}[fn], "d": ddof, "tag": tag, "ok": bool(ok)}
        if not ok:
            out["cases"].append(dict(base, x=[], g=[], v=[], val=[], vjp=[], jvp=None))
            continue
        if fn == "cumsum":
            if axis is None:
                rows = [list(range(n))]
                ypos = rows
            else:
                rows = fibres(shape, axis)
                ypos = rows                      # cumsum keeps the shape: output fibre = input fibre
            xf, vf, yf, gf, vjf = x.ravel(), v.ravel(), y.ravel(), g.ravel(), vj.ravel()
            jf = None if jv is None else jv.ravel()
            for row in rows:
                out["cases"].append(dict(base, x=[q(xf[p]) for p in row], g=[q(gf[p]) for p in row], v=[q(vf[p]) for p in row],
                                         val=[q(yf[p]) for p in row], vjp=[q(vjf[p]) for p in row],
                                         jvp=None if jf is None else [q(jf[p]) for p in row]))
        else:
            xf, vf, yf, gf, vjf = x.ravel(), v.ravel(), y.ravel(), g.ravel(), vj.ravel()
            jf = None if jv is None else jv.ravel()
            for j, row in enumerate(fibs):
                out["cases"].append(dict(base, x=[q(xf[p]) for p in row], g=[q(gf[j])], v=[q(vf[p]) for p in row], val=[q(yf[j])],
                                         vjp=[q(vjf[p]) for p in row], jvp=None if jf is None else [q(jf[j])]))
    print(json.dumps(out))


if __name__ == "__main__":
    main()
