"""C03: chain rule over arbitrary graphs; each rule once (L1)."""
from harness import common as C

FILES = ["Engine/Toposort.v", "Engine/ToposortProof.v", "Engine/Backward.v", "Engine/BackwardProof.v", "Engine/Run03.v", "Engine/TopoTie.v", "Engine/Tagged.v", "Engine/Tower.v", "Engine/TaggedProof.v", "Engine/TowerAlg.v", "Engine/FwdCorrect.v", "Engine/FwdStep.v", "Engine/FwdEval.v", "Engine/TowerRing.v", "Engine/MixInterp.v", "Engine/MixStep.v", "Engine/MixBackward.v", "Engine/MixEval.v", "Props/C03.v"]
RULE = ("random tapes (1..size nodes; fan-out, diamonds, f(x,x) multi-edges, constants, dead branches), "
        "random programs with branches/loops/recursion steered by traced values (the executed trace is the "
        "tape), and direct calls of autograd.util.toposort on explicit parent lists; a case is distinct by "
        "(tape, end, g) and non-trivial when the reachable set has >= 3 nodes; plus random nested programs "
        "(differentiation depth >= 2, closures over outer variables, bodies ignoring their variable) through the tagged "
        "evaluator, whose every level runs the same toposort/backward pass")
TRUST = ["user primitives defined through autograd.extend with integer local partials carry the graph "
         "structure; float64 arithmetic on them is exact (cases with |value| >= 2^45 are skipped)"]
ASSUMPTIONS = ["cotangents form a commutative monoid and local rules are additive (theorem hypotheses)",
               "node 0 is the only parentless node and parents precede children (how tracing builds tapes)"]
IMPORTS = ("From Coq Require Import List ZArith.\nImport ListNotations.\n"
           "From AG Require Import Toposort Backward Run03.\n")


def term(c):
    tape = C.clist([C.clist(["(%s, %s)" % (C.cnat(p), C.cz(k)) for p, k in n]) for n in c["tape"]])
    jv = c["jvp"] if c["jvp"] is not None else c["grad"]
    return ("{| c_tape := %s; c_end := %s; c_g := %s; i_grad := %s; i_log := %s; i_jvp := %s |}"
            % (tape, C.cnat(c["end"]), C.cz(c["g"]), C.cz(c["grad"]),
               C.clist([C.cnat(x) for x in c["log"]]), C.cz(jv)))


def term_t(c):
    return "{| t_tape := %s; t_end := %s; t_order := %s |}" % (
        C.clist([C.clist([C.cnat(p) for p in ps]) for ps in c["parents"]]), C.cnat(c["end"]),
        C.clist([C.cnat(x) for x in c["order"]]))


def explore(res, seed, n_tapes, n_programs, n_topo, size, tag):
    out, err = C.run_impl("impl_c03.py", {"seed": seed, "n_tapes": n_tapes, "n_programs": n_programs,
                                          "n_topo": n_topo, "size": size})
    if out is None:
        return None, None, err
    cases, topo = out["cases"], out["topo"]
    # an invocation log longer than the tape repeats a rule: decided without the model
    over = [c for c in cases if len(c["log"]) > len(c["tape"])] + \
           [c for c in topo if len(c["order"]) > len(c["parents"])]
    cases = [c for c in cases if len(c["log"]) <= len(c["tape"])]
    topo = [c for c in topo if len(c["order"]) <= len(c["parents"])]
    for k, v in out["dist"].items():
        res.count(k, v)
    res.count("skipped", out["skipped"])
    codes = C.coq_eval("c03_" + tag, IMPORTS, "", [term(c) for c in cases], "check03")
    codes_t = C.coq_eval("c03t_" + tag, IMPORTS, "", [term_t(c) for c in topo], "check03t")
    keys = [("g", str(c["tape"]), c["end"], c["g"]) for c in cases if len(c["log"]) >= 3]
    keys += [("t", str(c["parents"]), c["end"]) for c in topo if len(c["order"]) >= 3]
    res.add_cases(len(cases) + len(topo), keys,
                  [{k: c[k] for k in ("tape", "end", "g", "grad", "log", "jvp", "kind")} for c in cases[:2]]
                  + topo[:1])
    bad = [c for c, k in zip(cases, codes) if k == 2] + [c for c, k in zip(topo, codes_t) if k == 2]
    tie = [c for c, k in zip(cases, codes) if k == 1] + [c for c, k in zip(topo, codes_t) if k == 1]
    bad += sorted(out["errors"], key=lambda c: len(str(c)))[:3] + over[:3]
    res.add_cases(len(out["errors"]), [])
    key = lambda c: len(str(c))  # noqa: E731
    return sorted(bad, key=key), sorted(tie, key=key), None


def run(res, tier, seed, broken):
    big = tier == "thorough"
    bad, tie, err = explore(res, seed, 3000 if big else 500, 1500 if big else 250,
                            3000 if big else 500, 40, "main")
    if err:
        broken = broken + [{"obligation": "implementation side failed to run", "log": err[-3000:]}]
        bad, tie = [], []

    # nested differentiation: each inner backward pass must start at a node of its OWN trace and walk only the
    # graph between its input and its output (the tagged evaluator of C08 runs L1's toposort for every level)
    from harness import l2
    b2, t2, e2 = l2.run_programs(res, "c03_nested", seed + 5, 1200 if big else 200, {"maxd": 3}, min_ddepth=2)
    bad, tie = bad + b2, tie + t2
    if e2:
        broken = broken + [{"obligation": "implementation side (nested programs) failed to run", "log": e2[-3000:]}]

    # array-valued DAGs through the built-in rules (cotangents handed on as the same array object, all-zero
    # contributions from inactive branches, values used three or more times), ordinary writable cotangents: every
    # gradient entry against forward mode
    o3, e3 = C.run_impl("impl_c10.py", {"seed": seed + 9, "n": 0, "n_progs": 0, "n_dags": 2500 if big else 500, "n_cont": 0,
                                        "writable": True})
    if o3 is None:
        broken = broken + [{"obligation": "implementation side (array DAGs) failed to run", "log": (e3 or "")[-3000:]}]
    else:
        res.add_cases(o3["oracle_n"], o3["oracle_keys"], [])
        for k, v in o3["dist"].items():
            res.count("array-dag " + k, v)
        bad = bad + sorted(o3["oracle_bad"], key=lambda c: len(str(c)))[:5]

    def hunt():
        found = []
        for k in range(6 if big else 2):
            b, _, e = explore(res, seed + 1000 + k, 1500, 500, 1500, [6, 12, 25, 40, 40, 40][k], "hunt%d" % k)
            if b:
                found += b
                break
        return found

    C.decide(res, broken, tie, bad, hunt,
             lambda c: "gradient / invocation order differs from the path-sum spec on an executed graph")


def replay(rp):
    c = rp["replay"]
    print("replay case:", c)
    codes = C.coq_eval("c03_replay", IMPORTS, "", [term(c) if "tape" in c else term_t(c)],
                       "check03" if "tape" in c else "check03t")
    print("code (0 ok / 1 tie broken / 2 property fails):", codes)
    return 0 if codes == [0] else 1

TECHNIQUE = "Coq proof (induction/invariants over the two toposort loops and the backward pass, all DAGs); model proved equal to loops translated from util.toposort/core.backward_pass on every run (gen/GenTopo.v) + exact differential correspondence of the Gallina model with autograd on generated graphs"
DESIGN_REF = "DESIGN.md 4.3"
LEVEL_TEXT = ("Theorems for every DAG of any size and sharing pattern: the modelled toposort emits exactly the reachable "
              "nodes once, consumers first; the modelled backward pass returns the path-sum for any commutative monoid "
              "and additive rules; forward accumulation gives the same Jacobian over any commutative ring. The model is "
              "proved equal to the loops the translator generates from the source text of util.toposort and core.backward_pass "
              "on this run, and tied to util.toposort/core.backward_pass/JVPNode by exact comparison of order, invocation log, gradient "
              "and tangent on generated tapes and control-flow programs.")
LEVEL_NOTE = ("Trusted: Coq kernel; the statement translator harness/translators/topo.py (dict as total map, list head = stack top) and the correspondence run; "
              "float64 exactness on small integers; no axioms (Print Assumptions: closed under the global context).")
