"""C07: derivatives of derivatives (higher order, mixed modes)."""
import itertools
import random

from harness import common as C
from harness import l2

FILES = ["Engine/Toposort.v", "Engine/ToposortProof.v", "Engine/Tagged.v", "Engine/Tower.v", "Engine/Run08.v", "Engine/TowerProof.v", "Engine/TaggedProof.v", "Engine/TowerAlg.v", "Engine/FwdCorrect.v", "Engine/FwdStep.v", "Engine/FwdEval.v", "Engine/TowerRing.v", "Engine/MixInterp.v", "Engine/MixStep.v", "Engine/MixBackward.v", "Engine/MixEval.v", "Array/Bilinear.v", "Array/BilinearClosed.v", "Array/RunBil.v", "Props/C07.v"]
RULE = ("for random operator-free bodies, every one of the 2^k sequences of reverse/forward operators of order "
        "k=2..4 with respect to one variable, plus random nested programs of differentiation depth >= 2; distinct "
        "by program text; non-trivial when order >= 2 and the k-th derivative is not identically zero.  Built-in "
        "primitives: every call configuration of the rule table (half of it in the quick tier) plus special-value "
        "configurations (exponents/operands exactly 0, 1, 2; identity and zero matrices), second derivative of a "
        "generic-cotangent scalarisation and of a zero-residual least-squares scalarisation (cotangent exactly 0, "
        "H = J^T J) by rev-over-rev, fwd-over-rev, rev-over-fwd, fwd-over-fwd; compared with each other, with the "
        "truth (Richardson difference of the first-order gradient; J^T(J v)), and for Hessian symmetry")
TRUST = ["the formal function F and its derivative family are realised in Python as user primitives F[n](x) = d^n/dx^n x^6 whose rules call F[n+1]"]
ASSUMPTIONS = ["the Coq model covers scalar programs over +,-,*,neg,F; built-in array primitives at second order are covered by the implementation-side oracle only (orders >= 3 of built-ins: only through the engine model)"]


def towers(seed, n_bodies, kmax):
    rng = random.Random(seed)
    progs = []
    for _ in range(n_bodies):
        body = l2.gen_body(rng, rng.randint(2, 4), 1)
        x = rng.choice([-2, -1, 1, 2])
        for k in range(2, kmax + 1):
            for modes in itertools.product(["grad", "deriv"], repeat=k):
                progs.append(l2.tower(body, list(modes), x))
    return progs


def run(res, tier, seed, broken):
    big = tier == "thorough"
    progs = towers(seed, 60 if big else 14, 4)
    bad, tie, err = l2.run_programs(res, "c07_towers", seed, 0, {}, programs=progs)
    b2, t2, e2 = l2.run_programs(res, "c07_rand", seed + 1, 3000 if big else 300, {"maxd": 4}, min_ddepth=2)
    bad, tie = bad + b2, tie + t2
    for e in (err, e2):
        if e:
            broken = broken + [{"obligation": "implementation side failed to run", "log": e[-3000:]}]
    # built-in primitives: second derivatives by all four mode sequences over the rule table
    out, e3 = C.run_impl("impl_c07np.py", {"seed": seed, "tier": tier, "fraction": 0.5}, timeout=1500)
    if out is None:
        broken = broken + [{"obligation": "second-order oracle over the primitive table failed to run", "log": (e3 or "")[-3000:]}]
    else:
        res.add_cases(out["n"], out["keys"], out["samples"][:1])
        for k, v in out["dist"].items():
            res.count("np2:" + k, v)
        bad = bad + out["bad"]

    # bilinear primitives: the rules of the reverse rules (second order) against the model (BilinearClosed.v)
    from harness import rules
    b4, t4, e4 = rules.run_bilinear(res, "c07_bil", seed)
    if e4:
        broken = broken + [{"obligation": "bilinear second-order correspondence failed to run", "log": e4[-3000:]}]
    bad, tie = bad + b4, tie + t4

    def hunt():
        for k in range(6 if big else 2):
            b, _, _ = l2.run_programs(res, "c07_hunt%d" % k, seed + 9 + k, 0, {},
                                      programs=towers(seed + 100 + k, 40, 3 + k % 2))
            if b:
                return b
        return []

    C.decide(res, broken, tie, bad, hunt,
             lambda c: "a higher-order / mixed-mode derivative differs from the true derivative (tower spec)%s"
             % ((": %s [%s] %s" % (c.get("primitive"), c.get("configuration"), c.get("what"))) if c.get("primitive") else ""),
             site_of=lambda c: c.get("site", {}))


replay = __import__("harness.props.c08", fromlist=["replay"]).replay
TECHNIQUE = "Coq theorem C07_all_mode_sequences_exact (= nested_correct): every order and every mode sequence of the engine model equals the tower semantics; Hessian symmetry theorem on the tower spec; exact three-way correspondence over all 2^k mode sequences, k=2..4; second-order four-sequence oracle over the whole primitive configuration table incl. zero-cotangent and special-value points"
DESIGN_REF = "DESIGN.md 4.7"
LEVEL_TEXT = ("Proved in full on the engine model: all orders, all 2^k mode sequences, all compositions of the object-language "
              "primitives (whose rules are themselves traced programs). Built-in array primitives: second-order oracle over the "
              "whole configuration table (not a theorem).")
LEVEL_NOTE = "Trusted: Coq kernel; tagged evaluator tied to core.py/tracer.py by correspondence only; scalar object language."
