"""C17: user-defined primitives obey the extension contract; checkpoint is transparent."""
from harness import common as C

FILES = ["Operators/Extend.v", "Operators/ExtendTie.v", "Operators/Run17.v", "Props/C17.v"]
RULE = ("generated primitives of arity 1..5 registered through defvjp (positional makers, None entries, argnums= incl. "
        "permutations and duplicates), defvjp_argnum, defvjp_argnums, defjvp ('same'/None/callable), def_linear; "
        "every case differentiates a random non-empty subset of positions; each rule multiplies by a distinct prime "
        "so the number reaching an argument identifies the rule that produced it, and logs what it was called with; "
        "two-level cases put two positions at different trace levels; checkpoint compared with the unwrapped function "
        "at reverse orders 0..3; distinct by (registration, subset)")
TRUST = ["checkpoint and two-level cases are decided on the implementation (exact comparison), not by the model"]
ASSUMPTIONS = ["rules are opaque: the model decides which rule reaches which argument, not what the rule computes"]
IMPORTS = ("From Coq Require Import List ZArith.\nImport ListNotations.\n"
           "From AG Require Import Extend Run17.\nLocal Open Scope Z_scope.\n")


def nl(l):
    return C.clist([C.cnat(x) for x in l])


def term(c):
    api = {"defvjp": "ApiDefvjp", "argnum": "ApiArgnum", "argnums": "ApiArgnums"}[c["api"]]
    makers = C.clist(["(ERule %s)" % C.cnat(m[1]) if m[0] == "r" else "ENone" for m in c["makers"]])
    kw = "None" if c["argnums_kw"] is None else "(Some %s)" % nl(c["argnums_kw"])
    impl = "None" if c["impl"] is None else "(Some %s)" % C.clist([C.cz(v) for v in c["impl"]])
    return ("{| a_api := %s; a_argnums_kw := %s; a_makers := %s; a_diff := %s; a_g := %s; a_impl := %s; "
            "a_contract_ok := %s |}" % (api, kw, makers, nl(c["diff"]), C.cz(c["g"]), impl, C.cbool(c["contract_ok"])))


def termj(c):
    def je(e):
        return {"r": "(JRule %s)" % C.cnat(e[1] if len(e) > 1 else 0), "same": "JSame", "none": "JNone"}[e[0]]
    ents = C.clist(["(%s, %s)" % (C.cnat(i), je(e)) for i, e in c["entries"]])
    impl = "None" if c["impl"] is None else "(Some %s)" % C.cz(c["impl"])
    return ("{| j_entries := %s; j_linear := %s; j_xs := %s; j_diff := %s; j_ts := %s; j_impl := %s |}" % (
        ents, C.cbool(c["linear"]), C.clist([C.cz(x) for x in c["xs"]]), nl(c["diff"]),
        C.clist([C.cz(x) for x in c["ts"]]), impl))


def explore(res, tag, seed, n, n_oracle):
    out, err = C.run_impl("impl_c17.py", {"seed": seed, "n": n, "n_oracle": n_oracle})
    if out is None:
        return [], [], err
    for k, v in out["dist"].items():
        res.count(k, v)
    codes = C.coq_eval(tag + "v", IMPORTS, "", [term(c) for c in out["vjp"]], "check17")
    codesj = C.coq_eval(tag + "j", IMPORTS, "", [termj(c) for c in out["jvp"]], "check17j")
    res.add_cases(len(out["vjp"]) + len(out["jvp"]) + len(out["oracle"]),
                  [str(c) for c in out["vjp"] if len(c["diff"]) >= 1] + [str(c) for c in out["jvp"]]
                  + [str(c)[:120] for c in out["oracle"]],
                  out["vjp"][:1] + out["jvp"][:1])
    res.count("raises", sum(1 for c in out["vjp"] if c["impl"] is None))
    res.count("oracle-cases", len(out["oracle"]))
    bad = [c for c, k in zip(out["vjp"], codes) if k == 2] + [c for c, k in zip(out["jvp"], codesj) if k == 2] \
        + [c for c in out["oracle"] if not c["ok"]]
    tie = [c for c, k in zip(out["vjp"], codes) if k == 1] + [c for c, k in zip(out["jvp"], codesj) if k == 1]
    return sorted(bad, key=lambda c: len(str(c))), tie, None


def run(res, tier, seed, broken):
    big = tier == "thorough"
    bad, tie, err = explore(res, "c17_main", seed, 4000 if big else 600, 400 if big else 60)
    if err:
        broken = broken + [{"obligation": "implementation side failed to run", "log": err[-3000:]}]

    def hunt():
        for k in range(4 if big else 2):
            b, _, _ = explore(res, "c17_hunt%d" % k, seed + 41 + k, 1500, 100)
            if b:
                return b
        return []

    C.decide(res, broken, tie, bad, hunt,
             lambda c: "a registered rule was not routed to its argument as the extension contract states "
                       "(or checkpoint changed a value/derivative)",
             site_of=lambda c: c.get("site", {}))


def replay(rp):
    print(rp["replay"])
    return 1


TECHNIQUE = "Coq theorems on the routing tables of defvjp/defjvp (all arities, all subsets, three code paths) + exact correspondence with generated logging primitives; checkpoint by exact comparison on the implementation; the routing model (both modes, and the space whose zero a None entry is) proved equal to what is translated from core.defvjp / defjvp / defjvp_argnum / def_linear / translate_vjp / translate_jvp on every run (gen/GenExtend.v)"
DESIGN_REF = "DESIGN.md 4.17"
LEVEL_TEXT = ("Proved: routing of every registration API for every arity and list of differentiated positions (rule / zeros / raise). "
              "Tied: what the rules are called with, two-level trace assignments, checkpoint transparency (implementation oracle).")
LEVEL_NOTE = "Trusted: Coq kernel; routing model tied by correspondence; no axioms."
