"""C13: vector-space operations obey the axioms for every value type."""
from harness import common as C

FILES = ["Containers/VSpace.v", "Containers/VSpaceProof.v", "Containers/VSpaceTie.v", "Containers/Run13.v", "Props/C13.v"]
RULE = ("random value types: Python floats/complex, NumPy scalars, real (float16/32/64/longdouble) and complex "
        "(complex64/128) arrays of rank 0..3 with dims in {0,1,2,3}, nested to depth 3 in lists/tuples/dicts "
        "(incl. empty containers); data are small integers / Gaussian integers so every dtype is exact; the "
        "implementation's VSpace results are compared with the model, and the axioms are evaluated on the "
        "implementation's own results; distinct by (x, y, a); non-trivial when size >= 2")
TRUST = ["dicts are modelled in canonical key order (Python dict equality ignores order)"]
ASSUMPTIONS = ["exact arithmetic: rounding of reduced-precision dtypes is outside the model (integer data keeps it exact)"]
IMPORTS = ("From Coq Require Import List ZArith.\nImport ListNotations.\n"
           "From AG Require Import VSpace Run13.\nLocal Open Scope Z_scope.\n")


def ctree(t):
    if "r" in t:
        dt, sh, d = t["r"]
        return "(RLeaf %d%%nat %s %s)" % (dt, C.clist([C.cnat(s) for s in sh]), C.clist([C.cz(v) for v in d]))
    if "c" in t:
        dt, sh, d = t["c"]
        return "(CLeaf %d%%nat %s %s)" % (dt, C.clist([C.cnat(s) for s in sh]),
                                          C.clist(["(%s, %s)" % (C.cz(a), C.cz(b)) for a, b in d]))
    if "l" in t:
        return "(Seq false %s)" % C.clist([ctree(x) for x in t["l"]])
    if "t" in t:
        return "(Seq true %s)" % C.clist([ctree(x) for x in t["t"]])
    return "(Dct %s)" % C.clist(["(%s, %s)" % (C.cnat(k), ctree(v)) for k, v in t["d"]])


def term(c):
    fl = "None" if c["flat"] is None else "(Some %s)" % C.clist([C.cz(v) for v in c["flat"]])
    return ("{| v_x := %s; v_y := %s; v_a := %s; i_add := %s; i_smul := %s; i_cov := %s; i_inner := %s; "
            "i_zeros := %s; i_ones := %s; i_size := %s; i_basis := %s; i_flat := %s; i_axioms_ok := %s |}" % (
                ctree(c["x"]), ctree(c["y"]), C.cz(c["a"]), ctree(c["add"]), ctree(c["smul"]), ctree(c["cov"]),
                C.cz(c["inner"]), ctree(c["zeros"]), ctree(c["ones"]), C.cnat(c["size"]),
                C.clist([ctree(b) for b in c["basis"]]), fl, C.cbool(not c["problems"])))


def explore(res, tag, seed, n):
    out, err = C.run_impl("impl_c13.py", {"seed": seed, "n": n})
    if out is None:
        return [], [], err
    for k, v in out["dist"].items():
        res.count(k, v)
    errs = [c for c in out["cases"] if c.get("error")]
    cases = [c for c in out["cases"] if not c.get("error")]
    codes = C.coq_eval(tag, IMPORTS, "", [term(c) for c in cases], "check13", shard=150)
    res.add_cases(len(out["cases"]), [(str(c["x"]), str(c["y"]), c["a"]) for c in cases if c["size"] >= 2],
                  [{"x": c["x"], "y": c["y"], "a": c["a"], "inner": c["inner"], "size": c["size"]} for c in cases[:2]])
    key = lambda c: len(str(c["x"]))  # noqa: E731
    bad = sorted([c for c, k in zip(cases, codes) if k == 2] + errs, key=key)
    tie = sorted([c for c, k in zip(cases, codes) if k == 1], key=key)
    return [{"x": c["x"], "y": c["y"], "a": c["a"], "problems": c["problems"]} for c in bad], tie, None


def run(res, tier, seed, broken):
    big = tier == "thorough"
    bad, tie, err = explore(res, "c13_main", seed, 4000 if big else 600)
    if err:
        broken = broken + [{"obligation": "implementation side failed to run", "log": err[-3000:]}]

    def hunt():
        for k in range(5 if big else 2):
            b, _, _ = explore(res, "c13_hunt%d" % k, seed + 3 + k, 1500)
            if b:
                return b
        return []

    C.decide(res, broken, tie, bad, hunt, lambda c: "a vector-space axiom fails: %s" % (c.get("problems"),))


def replay(rp):
    print(rp["replay"])
    return 1


TECHNIQUE = "Coq proof by induction over the value-space tree (all nestings, shapes, real/complex leaves, any commutative ring): every space is K^size via flatten/unflatten and the operations are the coordinate operations; exact correspondence of the model with autograd's VSpace classes; leaf operations proved equal to definitions translated from core.VSpace / numpy_vspaces on every run (gen/GenVSpace.v)"
DESIGN_REF = "DESIGN.md 4.13"
LEVEL_TEXT = ("Theorems for all container nestings, shapes (incl. () and size 0), real and complex leaves, over any "
              "commutative ring: identity, commutativity, associativity, distributivity, symmetric bilinear inner "
              "product, positive definiteness (over Z), covector involution, basis size/orthonormality/completeness. "
              "The model is tied to core.VSpace / numpy_vspaces / builtins.ContainerVSpace by exact comparison on "
              "random nested integer-valued values of every dtype.")
LEVEL_NOTE = "Trusted: Coq kernel; hand-written model tied by correspondence; no axioms. Reduced-precision rounding, randn and aliasing of mut_add are outside the theorems (aliasing is checked on the implementation)."
