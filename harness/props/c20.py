"""C20: concurrent differentiations in different threads do not interfere."""
from harness import common as C
from harness import l2

FILES = ["Engine/Toposort.v", "Engine/ToposortProof.v", "Engine/Tagged.v", "Engine/Tower.v", "Engine/Run08.v",
         "Engine/TaggedProof.v", "Engine/RenameProof.v", "Engine/RenameEval.v", "Props/C20.v"]
RULE = ("thread A runs a nested-differentiation program (the witness d/dx[x d/dy(x y^2)] and random ones), threads B "
        "run their own (nested) differentiations; a controlled scheduler (Event hand-offs at hooks placed immediately "
        "around every trace entry and exit) realises every placement of B's events among A's events for short "
        "programs and a random sample for longer ones; each thread's result is compared with its solo result and "
        "with the model run under the induced interference script; distinct by (program, B, schedule); non-trivial "
        "when B's events fall strictly inside A's run")
TRUST = ["the scheduler only interleaves at hook points in user code (GIL preemption inside autograd's own bytecode is not explored)"]
ASSUMPTIONS = ["registries are not written after import; other threads affect a thread only through the trace counter"]


def case20(c):
    gaps = C.clist(["(%s, %d, %d)" % (C.cbool(g[0]), g[1], g[2]) for g in c["gaps"]])
    return "{| s_exp := %s; s_gaps := %s; s_res := %s |}" % (l2.cexp(c["exp"]), gaps, l2.cres(c["res"]))


def explore(res, tag, seed, n_progs, per_prog):
    out, err = C.run_impl("impl_c20.py", {"seed": seed, "n_progs": n_progs, "per_prog": per_prog}, timeout=1500)
    if out is None:
        return [], [], err
    for k, v in out["dist"].items():
        res.count(k, v)
    cases = out["cases"]
    codes = C.coq_eval(tag, l2.IMPORTS, "", [case20(c) for c in cases], "check20", shard=250)
    res.add_cases(len(cases), [(str(c["exp"]), str(c["b"]), str(c["plan"])) for c in cases
                               if any(g[1] or g[2] for g in c["gaps"])],
                  [{"A": c["exp"], "B": c["b"], "schedule": c["plan"], "A_observed": c["gaps"], "A_result": c["res"]}
                   for c in cases[:2]])
    key = lambda c: len(str(c["exp"])) + len(str(c["plan"]))  # noqa: E731
    bad = sorted([c for c, k in zip(cases, codes) if k == 2] + [c for c in cases if not c["b_ok"]], key=key) + out.get("extra_bad", [])
    res.add_cases(36, [])
    tie = sorted([c for c, k in zip(cases, codes) if k == 1], key=key)
    return bad, tie, None


def run(res, tier, seed, broken):
    big = tier == "thorough"
    bad, tie, err = explore(res, "c20_main", seed, 40 if big else 8, 120 if big else 40)
    if err:
        broken = broken + [{"obligation": "implementation side failed to run", "log": err[-3000:]}]

    # NumPy-level differentiations (the rule table of C01/C02) running in four threads at once
    out, e2 = C.run_impl("impl_rules.py", {"seed": seed, "props": ["C20"], "tier": tier, "threads": True,
                                            "real_for_c09": True}, timeout=2400)
    if out is None:
        broken = broken + [{"obligation": "concurrent pass over the rule table failed to run", "log": (e2 or "")[-3000:]}]
    else:
        res.count("concurrent-pass cases", out["dist"].get("concurrent-pass", 0))
        res.add_cases(out["dist"].get("concurrent-pass", 0), ["concurrent|" + k for k in out["keys"][:50]], [])
        bad = bad + [dict(b, exp=b["primitive"], plan=b["configuration"]) for b in out["bad"] if b["property"] == "C20"]

    def hunt():
        for k in range(4 if big else 2):
            b, _, _ = explore(res, "c20_hunt%d" % k, seed + 21 + k, 12, 150)
            if b:
                return b
        return []

    C.decide(res, broken, tie, bad, hunt,
             lambda c: "a thread's result under this schedule differs from its solo result",
             site_of=lambda c: {"mechanism": "trace ids shared between threads"})


def replay(rp):
    print(rp["replay"])
    return 1


TECHNIQUE = "Coq: interference-script model of the shared trace counter; refutation theorem for the shared depth counter (witness schedule, replayed on the implementation), non-interference theorem for the increasing supply /repo implements (all programs, all non-negative interference scripts) via invariance of the evaluator under increasing renamings of trace ids; controlled-scheduler correspondence"
DESIGN_REF = "DESIGN.md 4.20"
LEVEL_TEXT = ("Proved: the shared depth counter admits an interfering schedule (concrete witness); with a strictly increasing "
              "supply (what /repo implements) every program observes its solo result under every interference script (theorem). "
              "Tie: exhaustive/randomised controlled-schedule correspondence at hook granularity.")
LEVEL_NOTE = "Trusted: Coq kernel; model tied by correspondence; interleavings below the hook granularity are not explored."
