"""C08: nested differentiation is isolated (no perturbation confusion)."""
from harness import common as C
from harness import l2

FILES = ["Engine/Toposort.v", "Engine/ToposortProof.v", "Engine/Tagged.v", "Engine/Tower.v", "Engine/Run08.v", "Engine/TaggedProof.v", "Engine/TowerAlg.v", "Engine/FwdCorrect.v", "Engine/FwdStep.v", "Engine/FwdEval.v", "Engine/TowerRing.v", "Engine/MixInterp.v", "Engine/MixStep.v", "Engine/MixBackward.v", "Engine/MixEval.v", "Props/C08.v"]
RULE = ("random closed programs of the object language with nested grad / forward-mode derivative operators "
        "(depth 2..4, every mode assignment arises), inner bodies closing over any subset of the enclosing "
        "variables, value-steered branches; plus a systematic closure family (one binary primitive - operators and a "
        "primitive whose raw function only accepts plain numbers - on every ordered pair of arguments from "
        "{y, x, y*x, x*y, y+x, F(y), const} under all four mode pairings, and depth-3 variants); distinct by program "
        "text, non-trivial when the nesting depth of differential operators is >= 2; plus programs in which an inner "
        "differentiation fails and is caught by the enclosing differentiated function before another inner differentiation, "
        "and programs whose inner differential operators run on worker threads (closing over the outer thread's traced values)")
TRUST = ["the formal function F and its derivative family are realised in Python as user primitives F[n](x) = d^n/dx^n x^6"]
ASSUMPTIONS = ["scalar-valued programs over +,-,*,neg and one formal smooth function with its derivative family",
               "float64 arithmetic is exact on the generated integer data (larger cases are skipped)"]
OPTS = {"maxd": 4}


def run(res, tier, seed, broken):
    big = tier == "thorough"
    bad, tie, err = l2.run_programs(res, "c08_main", seed, 4000 if big else 600, OPTS, depth=7 if big else 6,
                                    min_ddepth=2)
    if err:
        broken = broken + [{"obligation": "implementation side failed to run", "log": err[-3000:]}]
    import random
    fam = l2.closure_family()
    if not big:
        fam = random.Random(seed).sample(fam, 300)
    b2, t2, e2 = l2.run_programs(res, "c08_closure", seed, 0, {}, programs=fam)
    bad, tie = bad + b2, tie + t2
    if e2:
        broken = broken + [{"obligation": "implementation side failed to run", "log": e2[-3000:]}]

    # an inner differentiation that fails and is caught by the enclosing differentiated function, followed by
    # another inner differentiation (stale trace-id state), and inner differentiations run on worker threads
    for tag, sd, n, o in (("c08_faults", seed + 3, 1500 if big else 250, {"maxd": 3, "fail": True}),
                          ("c08_threads", seed + 4, 1000 if big else 200, {"maxd": 3, "thread": 0.6})):
        b3, t3, e3 = l2.run_programs(res, tag, sd, n, o, min_ddepth=2)
        bad, tie = bad + b3, tie + t3
        if e3:
            broken = broken + [{"obligation": "implementation side failed to run", "log": e3[-3000:]}]

    # every differential operator used inside another differentiation, closing over the outer variable
    o_, e_ = C.run_impl("impl_ops_nested.py", {"seed": seed, "n": 12 if tier == "thorough" else 3})
    if o_ is None:
        broken = broken + [{"obligation": "nested-operator family failed to run", "log": (e_ or "")[-3000:]}]
    else:
        res.add_cases(o_["n"], o_["keys"], [])
        res.count("nested-operator-pairs", o_["dist"].get("nested-operator-pairs", 0))
        bad = bad + [dict(b, exp=b["inner"] + " in " + b["outer"]) for b in o_["bad"]]

    def hunt():
        for k in range(8 if big else 3):
            b, _, e = l2.run_programs(res, "c08_hunt%d" % k, seed + 77 + k, 1500, OPTS, depth=4 + k % 4,
                                      min_ddepth=2)
            if b:
                return b
        return []

    C.decide(res, broken, tie, bad, hunt,
             lambda c: "nested derivative differs from the tower-of-dual-numbers spec")


def replay(rp):
    c = rp["replay"]
    out, err = C.run_impl("impl_l2.py", {"seed": 0, "n": 0, "opts": {}, "programs": [c["exp"]]})
    print("implementation now:", out["cases"][0]["res"] if out else err)
    codes = C.coq_eval("c08_replay", l2.IMPORTS, "", [l2.case08(x) for x in out["cases"]], "check08")
    print("code (0 ok / 1 tie broken / 2 property fails):", codes)
    return 0 if codes == [0] else 1


TECHNIQUE = "Coq theorem nested_correct: the model of tracer.py/core.py (tagged evaluator: dynamic trace ids, boxes, wrapper, JVP/VJP nodes, one global node store, toposort, backward pass) computes the tag-free tower-of-dual-numbers semantics for every program, every nesting and every mixture of modes; model tied to /repo by exact three-way correspondence (autograd / model / spec) on generated nested programs incl. faults and worker threads"
DESIGN_REF = "DESIGN.md 4.8"
LEVEL_TEXT = "Proved in full on the model: C08_nested_correct (all programs over the differentiable primitives and sign, any depth, any mode mixture, any counter start, any interference). The model is hand-written and tied to tracer.py/core.py by the correspondence run."
LEVEL_NOTE = "Trusted: Coq kernel; the hand-written tagged evaluator is tied to tracer.py/core.py only by the correspondence run; theorems are about the model."
