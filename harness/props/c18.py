"""C18: the bundled gradient checker accepts correct rules and rejects wrong ones."""
from harness import common as C

FILES = ["Operators/Checker.v", "Operators/Gaussian.v", "Operators/Run18.v", "Operators/CheckerTie.v", "Props/C18.v"]
RULE = ("(A) pairs of float64 numbers around both thresholds of scalar_close (absolute 1e-6, relative 1e-6, opposite "
        "numbers, equal numbers; a guard band of 1e-12 around the thresholds is skipped), given exactly as rationals: "
        "decision compared with the proved procedure; (B) check_grads run with recorded seeds on correct primitives "
        "(scalar, matrix, reduction, complex, containers, built-ins; both modes, orders 1-2) which must always pass, and "
        "on planted defects (factor 1.05, sign, transpose, one wrong entry, dropped reduction, missing conjugate) in the "
        "requested mode which must be rejected in >= 99% of runs; distinct by (a, b) / (defect, mode, order)")
TRUST = ["check_grads' own Gaussian draws (np.random, seeded per trial)"]
ASSUMPTIONS = ["exact real arithmetic in the theorems; (H1) sub-additivity and (H2) standard-normal marginals of the draws"]
IMPORTS = ("From Coq Require Import List QArith.\nImport ListNotations.\nFrom AG Require Import Run18.\n")


def term(c):
    return "{| w_a := (%d # %d); w_b := (%d # %d); w_impl := %s |}" % (
        c["a"][0], c["a"][1], c["b"][0], c["b"][1], C.cbool(c["impl"]))


def explore(res, tag, seed, n, trials):
    out, err = C.run_impl("impl_c18.py", {"seed": seed, "n": n, "trials": trials}, timeout=2400)
    if out is None:
        return [], [], err
    for k, v in out["dist"].items():
        res.count(k, v)
    codes = C.coq_eval(tag, IMPORTS, "", [term(c) for c in out["pairs"]], "check18", shard=300)
    res.add_cases(len(out["pairs"]) + out["oracle_n"], [str(c) for c in out["pairs"]] + out["oracle_keys"], out["pairs"][:2])
    bad = [c for c, k in zip(out["pairs"], codes) if k != 0] + out["oracle_bad"]
    return bad, [], None


def run(res, tier, seed, broken):
    big = tier == "thorough"
    bad, tie, err = explore(res, "c18_main", seed, 3000 if big else 600, 200 if big else 30)
    if err:
        broken = broken + [{"obligation": "implementation side failed to run", "log": err[-3000:]}]

    def hunt():
        b, _, _ = explore(res, "c18_hunt", seed + 91, 1500, 100)
        return b

    C.decide(res, broken, tie, bad, hunt,
             lambda c: "the gradient checker's decision differs from the specification: %s" % (c.get("what", c),),
             site_of=lambda c: c.get("site", {}))


def replay(rp):
    print(rp["replay"])
    return 1


TECHNIQUE = "Coq/Coquelicot/Interval: accept and reject regions of scalar_close, rejection probability under stated probability hypotheses, rational decision procedure proved equivalent to the real definition and to the expression translated from test_util.py on every run (thresholds included); correspondence on float pairs + planted-defect runs of check_grads"
DESIGN_REF = "DESIGN.md 4.18"
LEVEL_TEXT = ("Partial (stated): deterministic accept/reject regions and a >= 0.99 rejection probability for a scalar wrong-factor rule "
              "under hypotheses (H1),(H2); exact-real arithmetic. Arrays, complex, containers, order 2 and forward mode are exercised "
              "on the implementation with planted defects.")
LEVEL_NOTE = "Trusted: Coq kernel; stdlib real axioms; PrimFloat/Uint63 primitive axioms via Interval (for the Gaussian mass bound); (H1),(H2) as section hypotheses."
