"""C16: all differential operators agree with one ground-truth Jacobian."""
from harness import common as C

FILES = ["Operators/Operators.v", "Operators/Run16.v", "Operators/PolyDeriv.v", "Operators/Argnum.v", "Operators/ArgnumTie.v", "Operators/RunArg.v", "Props/C16.v"]
RULE = ("random degree-2 polynomial maps Z^in -> Z^out with integer coefficients, in/out ranks 0..3 (incl. 0-d), one "
        "operator per case (jacobian, grad, elementwise_grad, deriv, hessian, make_hvp/hessian_tensor_product, "
        "tensor_jacobian_product, make_jvp, make_jvp_reversemode, make_ggnvp, value_and_grad, grad_and_aux): exact "
        "comparison with the contraction of the formal Jacobian computed in Coq, and of the result shape; plus the "
        "argnum algebra (position, tuple, list, by name; extra positional/keyword arguments) on the implementation; "
        "distinct by (map, x, operator)")
TRUST = ["the value map evalf of Run16.v is what the implementation's primal is compared with; its Jacobian/Hessian are proved (PolyDeriv.v), not assumed"]
ASSUMPTIONS = ["engine contract make_vjp = J^T g, make_jvp = J v (conclusion of C01-C03) for the theorems"]
IMPORTS = ("From Coq Require Import List ZArith.\nImport ListNotations.\n"
           "From AG Require Import Operators Run16 Argnum RunArg.\nLocal Open Scope Z_scope.\n")


def zl(l):
    return C.clist([C.cz(v) for v in l])


def term(c):
    op = {"jac": "OJac", "grad": "OGrad", "vag": "OGrad", "gaux": "OGrad", "egrad": "OEgrad", "deriv": "ODeriv", "hess": "OHess", "value": "OValue",
          "hvp": "(OHvp %s)" % zl(c["v"]), "tjp": "(OTjp %s)" % zl(c["vec"]), "jvp": "(OJvp %s)" % zl(c["v"]),
          "jvprev": "(OJvpRev %s)" % zl(c["v"]), "ggn": "(OGgn %s)" % zl(c["v"])}[c["op"]]
    poly = "{| pm := %s; pn := %s; pc := %s; pA := %s; pB := %s |}" % (
        C.cnat(c["m"]), C.cnat(c["n"]), zl(c["c"]), C.clist([zl(r) for r in c["A"]]),
        C.clist([C.clist([zl(r) for r in mat]) for mat in c["B"]]))
    return "{| q_p := %s; q_x := %s; q_op := %s; q_impl := %s; q_shape_ok := %s |}" % (
        poly, zl(c["x"]), op, zl(c["impl"]), C.cbool(c["shape_ok"]))


def term_sub(c):
    return "{| s_x := %s; s_ivs := %s; s_impl := %s |}" % (zl(c["x"]), C.clist(["(%s, %s)" % (C.cnat(i), C.cz(v)) for i, v in c["ivs"]]), zl(c["impl"]))


def term_arg(c):
    an = "(ATuple %s)" % C.clist([C.cnat(i) for i in c["an"]]) if c["tuple"] else "(AInt %s)" % C.cnat(c["an"])
    return "{| g_args := %s; g_an := %s; g_new := %s; g_point := %s; g_call := %s |}" % (zl(c["args"]), an, zl(c["new"]), zl(c["point"]), zl(c["call"]))


def explore(res, tag, seed, n, n_oracle):
    out, err = C.run_impl("impl_c16.py", {"seed": seed, "n": n, "n_oracle": n_oracle})
    if out is None:
        return [], [], err
    for k, v in out["dist"].items():
        res.count(k, v)
    cases = out["cases"]
    codes = C.coq_eval(tag, IMPORTS, "", [term(c) for c in cases], "check16", shard=250)
    res.add_cases(len(cases) + out["oracle_n"], [str((c["A"], c["B"], c["x"], c["op"])) for c in cases],
                  [{k: c[k] for k in ("in_shape", "out_shape", "op", "x", "impl")} for c in cases[:2]])
    bad = sorted([c for c, k in zip(cases, codes) if k == 2], key=lambda c: len(str(c))) + out["oracle_bad"]
    # the argument-selection algebra against Argnum.v
    sub, arg = out.get("subcases", []), out.get("argcases", [])
    scodes = C.coq_eval(tag + "_sub", IMPORTS, "", [term_sub(c) for c in sub], "checksub", shard=400) if sub else []
    acodes = C.coq_eval(tag + "_arg", IMPORTS, "", [term_arg(c) for c in arg], "checkarg", shard=400) if arg else []
    res.add_cases(len(sub) + len(arg), [str(("subvals", c["x"], c["ivs"])) for c in sub] + [str(("argnum", c["args"], c["an"], c["new"])) for c in arg], [])
    tie = [dict(c, op="util.subvals") for c, k in zip(sub, scodes) if k != 0]
    bad = bad + [dict(c, op="unary_to_nary(argnum=%r)" % (c["an"],)) for c, k in zip(arg, acodes) if k != 0]
    return bad, tie, None


def run(res, tier, seed, broken):
    big = tier == "thorough"
    bad, tie, err = explore(res, "c16_main", seed, 5000 if big else 700, 300 if big else 40)
    if err:
        broken = broken + [{"obligation": "implementation side failed to run", "log": err[-3000:]}]

    # every differential operator used inside another differentiation, closing over the outer variable
    o_, e_ = C.run_impl("impl_ops_nested.py", {"seed": seed, "n": 12 if tier == "thorough" else 3})
    if o_ is None:
        broken = broken + [{"obligation": "nested-operator family failed to run", "log": (e_ or "")[-3000:]}]
    else:
        res.add_cases(o_["n"], o_["keys"], [])
        res.count("nested-operator-pairs", o_["dist"].get("nested-operator-pairs", 0))
        bad = bad + [dict(b, exp=b["inner"] + " in " + b["outer"]) for b in o_["bad"]]

    def hunt():
        for k in range(4 if big else 2):
            b, _, _ = explore(res, "c16_hunt%d" % k, seed + 61 + k, 1500, 60)
            if b:
                return b
        return []

    C.decide(res, broken, tie, bad, hunt,
             lambda c: "operator %s does not return the stated contraction of the Jacobian (or has the wrong shape)" % c.get("op", c.get("oracle")),
             site_of=lambda c: {"operator": c.get("op", c.get("oracle"))})


def replay(rp):
    print(rp["replay"])
    return 1


TECHNIQUE = "Coq theorems: each operator, defined through the engine contract, equals the stated contraction of one abstract Jacobian for all sizes over any commutative ring; exact Taylor identity proving the polynomial ground truth; argument-selection algebra proved for every arity and proved equal to definitions translated from util.subvals / wrap_util.unary_to_nary on every run (gen/GenArgnum.v); exact correspondence against integer polynomial maps and of util.subvals/unary_to_nary against the model"
DESIGN_REF = "DESIGN.md 4.16"
LEVEL_TEXT = ("Proved for all output/input sizes and any Jacobian: jacobian entries and shape, grad, elementwise_grad, "
              "reverse-mode JVP = forward JVP, tensor-Jacobian product; for every quadratic polynomial map the formal Jacobian/Hessian are "
              "the derivatives of the value map (exact Taylor identity), hessian = Jacobian of the gradient and symmetric, hvp = gradient "
              "displacement; subvals/unary_to_nary substitute only the selected positions (every arity, every position list). Exact comparison of every operator (incl. hessian, "
              "hvp, ggnvp, value_and_grad, grad_and_aux) with Coq-computed contractions on polynomial maps of ranks 0..3; "
              "argnum algebra on the implementation.")
LEVEL_NOTE = "Trusted: Coq kernel; engine contract as section hypothesis; negative positions and selection by name by oracle only."
