"""C12: nested containers are differentiated leaf-wise; flatten commutes with grad."""
from harness import common as C
from harness.props.c13 import ctree

FILES = ["Containers/VSpace.v", "Containers/VSpaceProof.v", "Containers/ContainerOps.v", "Containers/ContainerSlice.v", "Containers/ContainerSel.v",
         "Containers/ContainerProof.v", "Containers/Run13.v", "Props/C12.v"]
RULE = ("random nested containers (depth <= 3, arity 0..4, empty containers, key sets) with integer-valued leaves; "
        "one container primitive per case (integer index incl. negative and out of range, slices with None/negative/"
        "out-of-range bounds, dict key incl. missing, + on either side): value and VJP compared with the model, and "
        "the adjoint identity <g,f(b)> = <vjp g,b> checked over the full standard basis on the implementation; "
        "oracle-only cases for constructors, iteration/unpacking, len/membership, dict methods and flatten; "
        "distinct by (x, op)")
TRUST = ["dicts in canonical key order; slices with step 1 only in the model"]
ASSUMPTIONS = ["leaf arithmetic exact on integer data"]
IMPORTS = ("From Coq Require Import List ZArith.\nImport ListNotations.\n"
           "From AG Require Import VSpace ContainerOps Run13.\nLocal Open Scope Z_scope.\n")


def oz(v):
    return "None" if v is None else "(Some %s)" % C.cz(v)


def cop(op):
    if op[0] == "int":
        return "(OTake (IInt %s))" % C.cz(op[1])
    if op[0] == "slice":
        return "(OTake (ISlice %s %s))" % (oz(op[1]), oz(op[2]))
    if op[0] == "sel":
        return "(OSel %s)" % C.clist([C.cnat(i) for i in op[4]])
    if op[0] == "key":
        return "(OTake (IKey %s))" % C.cnat(op[1])
    if op[0] == "extr":
        return "(OExtR %s)" % C.clist([ctree(t) for t in op[1]])
    return "(OExtL %s)" % C.clist([ctree(t) for t in op[1]])


def ot(t):
    return "None" if t is None else "(Some %s)" % ctree(t)


def term(c):
    return "{| k_x := %s; k_op := %s; k_g := %s; j_out := %s; j_vjp := %s; j_adjoint_ok := %s |}" % (
        ctree(c["x"]), cop(c["op"]), ctree(c["g"]), ot(c["out"]), ot(c["vjp"]), C.cbool(c["adj"]))


def explore(res, tag, seed, n, n_oracle):
    out, err = C.run_impl("impl_c12.py", {"seed": seed, "n": n, "n_oracle": n_oracle})
    if out is None:
        return [], [], err
    for k, v in out["dist"].items():
        res.count(k, v)
    cases = out["cases"]
    codes = C.coq_eval(tag, IMPORTS, "", [term(c) for c in cases], "check12", shard=200)
    res.add_cases(len(cases) + out["oracle_n"],
                  [(str(c["x"]), str(c["op"])) for c in cases if c["out"] is not None] + out["oracle_keys"],
                  [{"x": c["x"], "op": c["op"], "g": c["g"], "vjp": c["vjp"]} for c in cases[:2]])
    key = lambda c: len(str(c))  # noqa: E731
    bad = sorted([c for c, k in zip(cases, codes) if k == 2], key=key) + out["oracle_bad"]
    tie = sorted([c for c, k in zip(cases, codes) if k == 1], key=key)
    return bad, tie, None


def run(res, tier, seed, broken):
    big = tier == "thorough"
    bad, tie, err = explore(res, "c12_main", seed, 3000 if big else 500, 400 if big else 60)
    if err:
        broken = broken + [{"obligation": "implementation side failed to run", "log": err[-3000:]}]

    def hunt():
        for k in range(5 if big else 2):
            b, _, _ = explore(res, "c12_hunt%d" % k, seed + 11 + k, 1000, 100)
            if b:
                return b
        return []

    C.decide(res, broken, tie, bad, hunt,
             lambda c: "a container operation's derivative is not the leaf-wise adjoint (or flatten does not commute with grad)",
             site_of=lambda c: c.get("site", {}))


def replay(rp):
    print(rp["replay"])
    return 1


TECHNIQUE = "Coq proofs over value trees (any nesting): container primitives linear, registered VJPs are adjoints, flatten/unflatten inverse linear isometries and mutually adjoint; exact correspondence + full-basis adjoint oracle on the implementation"
DESIGN_REF = "DESIGN.md 4.12"
LEVEL_TEXT = ("Theorems for every nesting: integer/negative indexing, key access and +-concatenation VJPs are the adjoints "
              "of the (linear) primal ops; flatten and unflatten are mutually inverse, linear, isometric and mutually "
              "adjoint. Slices, constructors, iteration and dict methods: exact full-basis adjoint identity on the "
              "implementation (oracle), plus model correspondence for slices.")
LEVEL_NOTE = "Trusted: Coq kernel; model tied by correspondence; no axioms."
