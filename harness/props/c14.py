"""C14: independent / piecewise-constant dependence gives an exact zero."""
from harness import common as C
from harness import l2

FILES = ["Engine/Toposort.v", "Engine/ToposortProof.v", "Engine/Tagged.v", "Engine/Tower.v", "Engine/Run08.v", "Engine/TaggedProof.v", "Engine/TowerAlg.v", "Engine/FwdCorrect.v", "Engine/FwdStep.v", "Engine/FwdEval.v", "Engine/TowerRing.v", "Engine/MixInterp.v", "Engine/MixStep.v", "Engine/MixBackward.v", "Engine/MixEval.v", "Props/C14.v"]
RULE = ("random nested programs in which half of the differentiated bodies do not mention their own variable and "
        "sign() (registered non-differentiable) occurs; plus implementation-only oracle cases with container "
        "arguments and the exported piecewise-constant functions; distinct by program text; non-trivial when a "
        "differential operator is applied to an independent or sign-dependent body")
TRUST = ["oracle-only cases (containers, exported nograd functions) are decided on the implementation by exact comparison with zeros of the argument's structure / with NumPy"]
ASSUMPTIONS = ["scalar object language for the theorem; array/container zeros are checked on the implementation only"]
OPTS = {"maxd": 3, "sign": True, "indep": 0.5}


def run(res, tier, seed, broken):
    big = tier == "thorough"
    bad, tie, err = l2.run_programs(res, "c14_main", seed, 3000 if big else 500, OPTS, min_ddepth=1,
                                    nontrivial=lambda c: "sign" in str(c["exp"]) or "let" in str(c["exp"]))
    if err:
        broken = broken + [{"obligation": "implementation side failed to run", "log": err[-3000:]}]
    out, e2 = C.run_impl("impl_c14.py", {"seed": seed, "n": 400 if big else 120})
    if out is None:
        broken = broken + [{"obligation": "oracle run failed", "log": (e2 or "")[-3000:]}]
    else:
        res.add_cases(out["n"], out["keys"], out["samples"][:2])
        for k, v in out["dist"].items():
            res.count(k, v)
        bad = bad + out["bad"]

    def hunt():
        for k in range(6 if big else 2):
            b, _, _ = l2.run_programs(res, "c14_hunt%d" % k, seed + 5 + k, 1500, OPTS, min_ddepth=1)
            if b:
                return b
        return []

    C.decide(res, broken, tie, bad, hunt,
             lambda c: "derivative of an independent / piecewise-constant dependence is not the exact zero (or raised)")


replay = __import__("harness.props.c08", fromlist=["replay"]).replay
TECHNIQUE = "Coq theorem (non-differentiable primitives return plain values at any nesting) + model/spec/implementation correspondence on programs with independent and sign-dependent bodies + implementation oracle for containers"
DESIGN_REF = "DESIGN.md 4.14"
LEVEL_TEXT = "Proved: notrace primitives return plain values and block derivative flow at any nesting depth. Exact zeros for independent outputs: model definition tied by correspondence; containers/arrays by implementation oracle."
LEVEL_NOTE = "Trusted: Coq kernel; model tied by correspondence; the list of registered nograd functions is checked against NumPy on the implementation only."
