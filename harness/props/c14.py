"""C14: independent / piecewise-constant dependence gives an exact zero."""
from harness import common as C
from harness import l2

FILES = ["Engine/Toposort.v", "Engine/ToposortProof.v", "Engine/Tagged.v", "Engine/Tower.v", "Engine/Run08.v", "Engine/TaggedProof.v", "Engine/TowerAlg.v", "Engine/FwdCorrect.v", "Engine/FwdStep.v", "Engine/FwdEval.v", "Engine/TowerRing.v", "Engine/MixInterp.v", "Engine/MixStep.v", "Engine/MixBackward.v", "Engine/MixEval.v", "Rules/RealPrelude.v", "Rules/PiecewiseConst.v", "Rules/NogradTie.v", "Rules/Run14.v", "Operators/Extend.v", "Engine/IndependentTie.v", "Props/C14.v"]
RULE = ("(a) random nested programs in which half of the differentiated bodies do not mention their own variable and "
        "sign() (registered non-differentiable) occurs; plus implementation-only oracle cases with container "
        "arguments and the exported piecewise-constant functions; distinct by program text; non-trivial when a "
        "differential operator is applied to an independent or sign-dependent body; (b) the twenty-two proved piecewise-constant "
        "members at floats read as dyadic rationals (integers, half-integers, 2^-45 next to a jump, 2^70, 1e-300, comparisons "
        "at equality), value under tracing and gradient of x*f(x) in both modes, evaluated against the integer model in Coq")
TRUST = ["translator harness/translators/nograd.py (the literal list nograd_functions and its two registration loops; the dependence test of tracer.trace and the zero answers of core.make_vjp / make_jvp)", "floats are the dyadic rationals float.as_integer_ratio() reports",
         "oracle-only cases (containers, exported nograd functions) are decided on the implementation by exact comparison with zeros of the argument's structure / with NumPy"]
ASSUMPTIONS = ["scalar object language for the theorem; array/container zeros are checked on the implementation only"]
OPTS = {"maxd": 3, "sign": True, "indep": 0.5}


def run(res, tier, seed, broken):
    big = tier == "thorough"
    bad, tie, err = l2.run_programs(res, "c14_main", seed, 3000 if big else 500, OPTS, min_ddepth=1,
                                    nontrivial=lambda c: "sign" in str(c["exp"]) or "let" in str(c["exp"]))
    if err:
        broken = broken + [{"obligation": "implementation side failed to run", "log": err[-3000:]}]
    out, e2 = C.run_impl("impl_c14.py", {"seed": seed, "n": 400 if big else 120})
    if out is None:
        broken = broken + [{"obligation": "oracle run failed", "log": (e2 or "")[-3000:]}]
    else:
        res.add_cases(out["n"], out["keys"], out["samples"][:2])
        for k, v in out["dist"].items():
            res.count(k, v)
        bad = bad + out["bad"]
        # the proved piecewise-constant members at floats = dyadic rationals: value and gradient of x * f(x) against the integer model
        pcs = out.get("pc_cases", [])
        if pcs:
            z = lambda n: "(%d)" % n  # noqa: E731
            terms = ["(%d%%nat, (%s, %s)%%Z, (%s, %s)%%Z, (%s, %s)%%Z)" % (c["code"], z(c["pcqc"][0]), z(c["pcqc"][1]), z(c["pq"][0]), z(c["pq"][1]), z(c["v"]), z(c["g"])) for c in pcs]
            try:
                codes = C.coq_eval("c14_pc", "From Coq Require Import ZArith List.\nImport ListNotations.\nFrom AG Require Import Run14.", "", terms, "check14pc", shard=400)
            except RuntimeError as ex:
                codes = []
                broken = broken + [{"obligation": "piecewise-constant model evaluation", "log": str(ex)[-3000:]}]
            res.add_cases(len(codes), ["pc:%s:%s:%s:%s" % (c["name"], c["mode"], c["x"], c["c"]) for c in pcs[:len(codes)]], pcs[:2])
            for c, code in zip(pcs, codes):
                if code == 2:
                    bad.append({"kind": "piecewise-constant member: the gradient of x * f(x) is not f(x)", "case": c, "site": {"oracle": "pc-member", "name": c["name"], "mode": c["mode"]}})
                elif code == 1:
                    tie.append({"kind": "NumPy's value differs from the integer model", "case": c})

    def hunt():
        for k in range(6 if big else 2):
            b, _, _ = l2.run_programs(res, "c14_hunt%d" % k, seed + 5 + k, 1500, OPTS, min_ddepth=1)
            if b:
                return b
        return []

    C.decide(res, broken, tie, bad, hunt,
             lambda c: "derivative of an independent / piecewise-constant dependence is not the exact zero (or raised)")


replay = __import__("harness.props.c08", fromlist=["replay"]).replay
TECHNIQUE = "Coq theorems (non-differentiable primitives return plain values at any nesting; over the reals, the registered floor/ceil/trunc/rint/round/sign/comparisons are locally constant away from their jumps, so blocking the flow is the derivative and x*floor(x) differentiates to floor(x)) + translator of the nograd_functions list + model/spec/implementation correspondence on programs with independent and sign-dependent bodies + implementation oracle for containers"
DESIGN_REF = "DESIGN.md 4.14"
LEVEL_TEXT = "Proved: notrace primitives return plain values and block derivative flow at any nesting depth; twenty-two registered members (floor, ceil, trunc, fix, rint, round, around, sign, six comparisons, logical_not and the seven predicates that are constant on finite reals) are on the translated list and have derivative 0 / freeze inside any program away from their jump points; the integer model compared with NumPy computes them at every rational. Exact zeros for independent outputs: model definition tied by correspondence; containers/arrays by implementation oracle."
LEVEL_NOTE = "Trusted: Coq kernel; stdlib Reals axioms (sig_forall_dec, sig_not_dec, functional_extensionality_dep) for the real-number theorems; model tied by correspondence and by the nograd translator; the other 27 registered nograd functions are checked against NumPy on the implementation only."
