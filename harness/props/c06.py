"""C06: differentiation is value-transparent."""
from harness import common as C
from harness import l2

FILES = ["Engine/Toposort.v", "Engine/ToposortProof.v", "Engine/Tagged.v", "Engine/Tower.v", "Engine/Run08.v", "Engine/TaggedProof.v", "Engine/TowerAlg.v", "Engine/FwdCorrect.v", "Engine/FwdStep.v", "Engine/FwdEval.v", "Engine/TowerRing.v", "Engine/MixInterp.v", "Engine/MixStep.v", "Engine/MixBackward.v", "Engine/MixEval.v", "Props/C06.v"]
RULE = ("random bodies (with and without nested operators) evaluated plainly, under make_vjp, under make_jvp and "
        "under two nested value_and_grad levels: the four primal values are compared with the spec and with the "
        "model on correspondingly boxed inputs; plus implementation-only comparison of the autograd.numpy wrappers "
        "with NumPy (values, shape, dtype, result structure, no tracer objects, inputs unmodified); distinct by "
        "(body, x) / (function, argument form)")
TRUST = ["the wrapper-vs-NumPy comparison is an implementation-level differential test (NumPy is the oracle)"]
ASSUMPTIONS = ["scalar object language for the theorems"]


def case06(c):
    vals = C.clist(["(Some (%d))" % v if isinstance(v, int) else "None" for v in c["vals"]])
    return "{| b_body := %s; b_x := %d; b_vals := %s |}" % (l2.cexp(c["body"]), c["x"], vals)


def explore(res, tag, seed, n):
    cfg = {"seed": seed, "n": n, "opts": {"maxd": 2, "sign": True}, "depth": 5, "mode": "c06"}
    bad, tie, err, out = l2.run_cases(
        res, tag, cfg, case06, "check06", lambda c: (str(c["body"]), c["x"]), lambda c: len(str(c["body"])) > 30,
        lambda c: c)
    if out is not None:
        bad = bad + [c for c in out["cases"] if any(not isinstance(v, int) for v in c["vals"])]
    return bad, tie, err


def run(res, tier, seed, broken):
    big = tier == "thorough"
    bad, tie, err = explore(res, "c06_main", seed, 2500 if big else 400)
    if err:
        broken = broken + [{"obligation": "implementation side failed to run", "log": err[-3000:]}]
    out, e2 = C.run_impl("impl_c06np.py", {"seed": seed, "tier": tier})
    if out is None:
        broken = broken + [{"obligation": "wrapper-vs-NumPy run failed", "log": (e2 or "")[-3000:]}]
    else:
        res.add_cases(out["n"], out["keys"], out["samples"][:2])
        for k, v in out["dist"].items():
            res.count(k, v)
        bad = bad + out["bad"]

    def hunt():
        for k in range(4 if big else 2):
            b, _, _ = explore(res, "c06_hunt%d" % k, seed + 31 + k, 1000)
            if b:
                return b
        return []

    C.decide(res, broken, tie, bad, hunt,
             lambda c: "primal value under differentiation differs from the plain value / from NumPy, or a tracer object escaped",
             site_of=lambda c: c.get("site", {}))


def replay(rp):
    print(rp["replay"])
    return 1


TECHNIQUE = "Coq theorems (primitive wrapper and first-order programs are value-transparent for arbitrarily nested/tagged inputs) + correspondence of primal values under tracing + differential test of the NumPy wrappers"
DESIGN_REF = "DESIGN.md 4.6"
LEVEL_TEXT = "Proved: strip(eval_tagged e env) = eval_plain e (strip env) for all first-order programs and arbitrarily boxed inputs. Wrapper functions: differential test against NumPy only."
LEVEL_NOTE = "Trusted: Coq kernel; model tied by correspondence; NumPy as oracle for the wrappers."
