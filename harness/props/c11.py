"""C11: indexing gradients scatter exactly and combine with dense ones in any order."""
from harness import common as C

FILES = ["Containers/VSpace.v", "Containers/VSpaceProof.v", "Array/Index.v", "Array/BasicIndex.v", "Array/BasicIndexProof.v", "Array/Run01.v", "Array/Run11.v", "Props/C11.v"]
RULE = ("index expressions from a grammar (ints, negative ints, slices with steps incl. negative, ellipsis, newaxis, "
        "integer arrays and lists with repeated entries, boolean masks, mixtures) on arrays of rank 0..4; the flat "
        "positions read are taken from NumPy on a position-labelled array; VJP/JVP compared with the model's "
        "scatter/gather and with np.add.at; a malformed stream (out-of-range, too many indices) must raise on both "
        "sides; programs summing k sparse and m dense uses of one read-only array in every order for k+m<=4 and "
        "random beyond; distinct by (shape, index expression)")
TRUST = ["NumPy's resolution of an index expression to source positions is taken from NumPy itself"]
ASSUMPTIONS = ["integer data: float64 arithmetic exact"]
IMPORTS = ("From Coq Require Import List ZArith.\nImport ListNotations.\n"
           "From AG Require Import VSpace Index BasicIndex Run01 Run11.\nLocal Open Scope Z_scope.\n")


def nl(l):
    return C.clist([C.cnat(x) for x in l])


def zl(l):
    return C.clist([C.cz(x) for x in l])


def term(c):
    return "{| x_n := %s; x_sigma := %s; x_g := %s; x_v := %s; x_vjp := %s; x_jvp := %s; x_ok := %s |}" % (
        C.cnat(c["n"]), nl(c["sigma"]), zl(c["g"]), zl(c["v"]), zl(c["vjp"]), zl(c["jvp"]), C.cbool(c["ok"]))


def termb(c):
    oz = lambda v: "None" if v is None else "(Some %s)" % C.cz(v)  # noqa: E731

    def it(p):
        if p[0] == "ell":
            return "BEll"
        if p[0] == "new":
            return "BNew"
        if p[0] == "int":
            return "(BInt %s)" % C.cz(p[1])
        return "(BSlice %s %s %s)" % (oz(p[1]), oz(p[2]), C.cz(p[3]))
    return "{| b_dims := %s; b_items := %s; b_sigma := %s |}" % (C.clist([C.cnat(d) for d in c["shape"]]), C.clist([it(p) for p in c["basic"]]),
                                                              C.clist([C.cnat(i) for i in c["sigma"]]))


def termp(c):
    uses = C.clist(["(UDense %s)" % zl(u["dense"]) if "dense" in u else "(USparse %s %s)" % (nl(u["sigma"]), zl(u["w"]))
                    for u in c["uses"]])
    return "{| y_n := %s; y_uses := %s; y_grad := %s; y_ok := %s |}" % (C.cnat(c["n"]), uses, zl(c["grad"]), C.cbool(c["ok"]))


def explore(res, tag, seed, n, n_progs):
    out, err = C.run_impl("impl_c11.py", {"seed": seed, "n": n, "n_malformed": n // 4, "n_progs": n_progs})
    if out is None:
        return [], [], err
    for k, v in out["dist"].items():
        res.count(k, v)
    res.count("malformed-both-raise", out["malformed"]["both_raise"])
    codes = C.coq_eval(tag, IMPORTS, "", [term(c) for c in out["cases"]], "check11", shard=250)
    codesp = C.coq_eval(tag + "p", IMPORTS, "", [termp(c) for c in out["progs"]], "check11p", shard=250)
    basics = [c for c in out["cases"] if c.get("basic") is not None]
    codesb = C.coq_eval(tag + "b", IMPORTS, "", [termb(c) for c in basics], "check11b", shard=250) if basics else []
    res.add_cases(len(out["cases"]) + len(out["progs"]) + out["malformed"]["n"],
                  [(str(c["shape"]), c["index"]) for c in out["cases"]] + [str(c["uses"]) for c in out["progs"]],
                  [{k: c[k] for k in ("shape", "index", "sigma", "g", "vjp")} for c in out["cases"][:2]] + out["progs"][:1])
    key = lambda c: len(str(c))  # noqa: E731
    bad = sorted([c for c, k in zip(out["cases"], codes) if k == 2] + [c for c, k in zip(out["progs"], codesp) if k == 2], key=key) \
        + out["malformed"]["bad"] + out.get("nested", {}).get("bad", [])
    res.add_cases(out.get("nested", {}).get("n", 0), [])
    tie = sorted([c for c, k in zip(out["cases"], codes) if k == 1] + [c for c, k in zip(out["progs"], codesp) if k == 1]
                 + [dict(c, what="the model of NumPy's basic indexing computes other positions than NumPy reads") for c, k in zip(basics, codesb) if k != 0], key=key)
    res.count("basic-index-model-vs-numpy", len(basics))
    return bad, tie, None


def run(res, tier, seed, broken):
    big = tier == "thorough"
    bad, tie, err = explore(res, "c11_main", seed, 4000 if big else 600, 600 if big else 120)
    if err:
        broken = broken + [{"obligation": "implementation side failed to run", "log": err[-3000:]}]

    def hunt():
        for k in range(4 if big else 2):
            b, _, _ = explore(res, "c11_hunt%d" % k, seed + 71 + k, 1500, 200)
            if b:
                return b
        return []

    C.decide(res, broken, tie, bad, hunt,
             lambda c: "an indexing gradient is not the exact scatter-add, or sparse/dense contributions do not sum",
             site_of=lambda c: c.get("site", {}))


def replay(rp):
    print(rp["replay"])
    return 1


TECHNIQUE = "Coq proofs over arbitrary position lists: scatter-add is the adjoint of gather, all add_outgrads branches add the dense equivalent, mixed accumulation = dense sum in any order; exact correspondence over a grammar of index expressions and mixed programs"
DESIGN_REF = "DESIGN.md 4.11"
LEVEL_TEXT = ("Theorems for every list of source positions (hence every index expression): untake/add.at is the adjoint of "
              "getitem with repeated positions accumulating; every list of sparse and dense contributions accumulates to the "
              "dense sum in any order, in an owned buffer. Tied by exact comparison on grammar-generated index expressions "
              "(ranks 0..4) and programs mixing sparse and dense uses.")
LEVEL_NOTE = "Trusted: Coq kernel; NumPy's index resolution (read from a labelled array); no axioms."
