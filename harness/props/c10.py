"""C10: differentiation never writes memory it does not own; VJP functions reusable."""
from harness import common as C

FILES = ["Containers/VSpace.v", "Containers/VSpaceProof.v", "Array/Index.v", "Engine/Heap.v", "Engine/HeapPass.v", "Array/Run01.v",
         "Engine/Run10.v", "Props/C10.v"]
RULE = ("(A) core.add_outgrads folded over random lists of dense contributions (references to 1-3 shared buffers, so the "
        "same array may arrive several times) and sparse ones (untake objects): value, mutable flag and the identity of "
        "the result (which pre-existing buffer, or a new one) compared with the heap model, all buffers checked unchanged; "
        "(B) programs (fan-out, diamonds, indexing, reductions, containers) with every input, constant and cotangent "
        "read-only, the VJP/JVP function called 7 times in shuffled order, compared with fresh single calls and with "
        "snapshots of earlier results; (C) random polynomial DAGs over arrays (add/mul/powers, random sharing and "
        "association order): backward accumulation checked against forward mode by the exact adjoint identity; (D) "
        "container arguments receiving dense (+, constructors) and indexed contributions in random order, read-only "
        "cotangent leaves; distinct by (buffers, contributions) / (program, input)")
TRUST = ["object identity on the implementation is observed with `is`; read-only arrays turn an illegal write into an exception"]
ASSUMPTIONS = ["rule contract: a derivative rule does not write its arguments, only allocates, and returns its cotangent, pre-existing buffers or fresh arrays whose values are a function of the cotangent (section hypothesis rule_ok; validated for built-in rules by the read-only runs)"]
IMPORTS = ("From Coq Require Import List ZArith.\nImport ListNotations.\n"
           "From AG Require Import VSpace Index Heap Run01 Run10.\nLocal Open Scope Z_scope.\n")


def term(c):
    zl = lambda l: C.clist([C.cz(x) for x in l])  # noqa: E731
    cs = C.clist(["(HDense %s)" % C.cnat(e[1]) if e[0] == "d" else
                  "(HSparse %s %s)" % (C.clist([C.cnat(i) for i in e[1]]), C.cnat(e[2])) for e in c["cs"]])
    alias = "None" if c["alias"] is None else "(Some %s)" % C.cnat(c["alias"])
    return "{| m_n := %s; m_bufs := %s; m_cs := %s; m_val := %s; m_flag := %s; m_alias := %s; m_ok := %s |}" % (
        C.cnat(c["n"]), C.clist([zl(b) for b in c["bufs"]]), cs, zl(c["val"]), C.cbool(c["flag"]), alias, C.cbool(c["ok"]))


def explore(res, tag, seed, n, n_progs):
    out, err = C.run_impl("impl_c10.py", {"seed": seed, "n": n, "n_progs": n_progs, "n_dags": n_progs * 6,
                                          "n_cont": n_progs * 3})
    if out is None:
        return [], [], err
    for k, v in out["dist"].items():
        res.count(k, v)
    codes = C.coq_eval(tag, IMPORTS, "", [term(c) for c in out["cases"]], "check10", shard=250)
    res.add_cases(len(out["cases"]) + out["oracle_n"],
                  [(str(c["bufs"]), str(c["cs"])) for c in out["cases"] if len(c["cs"]) >= 2] + out["oracle_keys"],
                  out["cases"][:2])
    key = lambda c: len(str(c))  # noqa: E731
    bad = sorted([c for c, k in zip(out["cases"], codes) if k == 2], key=key) + out["oracle_bad"]
    tie = sorted([c for c, k in zip(out["cases"], codes) if k == 1], key=key)
    return bad, tie, None


def run(res, tier, seed, broken):
    big = tier == "thorough"
    bad, tie, err = explore(res, "c10_main", seed, 4000 if big else 600, 400 if big else 63)
    if err:
        broken = broken + [{"obligation": "implementation side failed to run", "log": err[-3000:]}]

    # every configuration of the rule table on read-only arguments, each VJP / JVP function called twice
    from harness import rules
    ob, e2 = rules.run_oracle(res, ["C10"], tier, seed)
    if e2:
        broken = broken + [{"obligation": "rule-table pass (read-only arguments, repeated calls) failed to run", "log": e2[-3000:]}]
    bad = bad + [b for b in ob if b["property"] == "C10"]

    def hunt():
        for k in range(4 if big else 2):
            b, _, _ = explore(res, "c10_hunt%d" % k, seed + 81 + k, 1500, 90)
            if b:
                return b
        return []

    C.decide(res, broken, tie, bad, hunt,
             lambda c: "memory not owned by the differentiation was written, or a VJP/JVP function is not reusable",
             site_of=lambda c: c.get("site", {}))


def replay(rp):
    print(rp["replay"])
    return 1


TECHNIQUE = "Coq frame theorem on a heap model of add_outgrads (buffer identities, all branches, arbitrary aliasing); refinement theorem for the whole backward pass (in-place accumulation = pure accumulation, pre-existing memory unchanged, a repeated call answers as the only call) + correspondence of value/flag/identity with core.add_outgrads + read-only/repeated-call programs"
DESIGN_REF = "DESIGN.md 4.10"
LEVEL_TEXT = ("Proved: accumulation of any list of aliased dense and sparse contributions leaves every pre-existing buffer unchanged; "
              "owned values are freshly allocated. Proved for the whole backward pass over the heap model, for every graph, order and rule family "
              "under the rule contract (a rule only allocates and refers to its cotangent, pre-existing buffers or what it allocated): "
              "same result as the pure pass, pre-existing memory unchanged, a second call answers as if it were the only call. "
              "On the implementation: runs with read-only memory, permuted repeated calls and snapshots.")
LEVEL_NOTE = "Trusted: Coq kernel; rule contract (rules do not write their arguments) as stated assumption; no axioms."
