"""C04: adjointness (rule family)."""
from harness import rules

FILES = rules.RULE_FILES + ["Props/C04.v"]
RULE = ("every exported differentiable primitive in a systematic space of call configurations (ranks 0..4, broadcast "
        "patterns, Python scalar vs array, every axis incl. negative and tuples, keepdims, optional kwargs, each "
        "differentiated argnum, function/method/operator forms): the implementation's VJP/JVP is compared with the true "
        "Jacobian (exact for primitives affine in the argument: f(x+e_j)-f(x) on integer data; Richardson central "
        "differences otherwise), for shape/kind, and for the adjoint identity; plus the unbroadcast/broadcast model "
        "correspondence; distinct by (primitive, configuration)")
TRUST = ["scalar rules are tied by the ast translator (coq/gen/GenRules.v regenerated every run); the name -> real-function dictionary (anp.sin is sin, ...)",
         "structured rules (reductions, gathers, contractions, linalg, fft) are outside the proved set: they are examined by the oracle, not proved"]
ASSUMPTIONS = ["floating point is abstracted to exact real arithmetic in the theorems", "regular (generic) points only"]


def run(res, tier, seed, broken):
    rules.run(res, tier, seed, broken, ["C04"], True, containers=True)


def replay(rp):
    print(rp["replay"])
    return 1


TECHNIQUE = "Coq/Coquelicot proofs that the translated scalar rules are the true derivatives + ring-generic adjointness theorems for broadcasting, selections, bilinear and R-linear maps, reductions; translator regenerated from /repo each run; model-vs-implementation correspondences evaluated in Coq (structure read off NumPy); exact/numeric Jacobian oracle over the call-configuration space"
DESIGN_REF = "DESIGN.md 4.4"
LEVEL_TEXT = "Family-partial proof: see Props/C04.v for the proved set (ufunc-style rules for all shapes/broadcasts; structural (selection) primitives for every selection list; bilinear primitives (dot/matmul/tensordot/inner/outer/kron/einsum/cross/multiply) for every list of structure constants, real and complex operands; R-linear primitives on complex arrays in realified form (FFT family, real/imag/conj); sum/mean over any axes; var/std/prod/cumsum/2-norm on fibres of any length); everything else (linalg decompositions, non-integer FFT lengths, non-constant pad modes, gradient, ...) is examined by the implementation oracle and not claimed as proved."
LEVEL_NOTE = "Trusted: Coq kernel; stdlib real-number axioms (sig_forall_dec, sig_not_dec, functional_extensionality_dep, classic) via Reals/Coquelicot; the translator; NumPy as the primal."
