"""C19: results are independent of call history, including failed calls."""
from harness import common as C
from harness import l2

FILES = ["Engine/Toposort.v", "Engine/ToposortProof.v", "Engine/Tagged.v", "Engine/Tower.v", "Engine/Run08.v",
         "Engine/TaggedProof.v", "Engine/RenameProof.v", "Engine/RenameEval.v", "Props/C19.v"]
RULE = ("histories: sequences of random nested programs run in ONE interpreter without resetting anything, with "
        "planted failures (raise at an arbitrary operation of the forward evaluation, inside inner traces, caught "
        "by try/except at any enclosing level or escaping); each call is compared with the history-free spec and "
        "with the model started from the leaked counter; distinct by (program, counter before); non-trivial when "
        "the call starts from a leaked counter or contains a failure")
TRUST = ["registries (primitive_vjps, primitive_jvps, notrace_primitives, Box.type_mappings, VSpace.mappings) are snapshotted before/after each history on the implementation"]
ASSUMPTIONS = ["faults are Python exceptions raised by user code inside the differentiated function (rule-raised faults share the same unwinding path)"]
OPTS = {"maxd": 3, "fail": True}


def case19(c):
    return "{| h_exp := %s; h_top := %d; h_res := %s; h_top_after := %d |}" % (
        l2.cexp(c["exp"]), c["top_before"], l2.cres(c["res"]), c["top_after"])


def history(res, tag, seed, n):
    cfg = {"seed": seed, "n": n, "opts": OPTS, "depth": 6, "min_ddepth": 1, "reset_top": False}
    bad, tie, err, out = l2.run_cases(
        res, tag, cfg, case19, "check19", lambda c: (str(c["exp"]), c["top_before"]),
        lambda c: c["top_before"] > -1 or "fail" in str(c["exp"]),
        lambda c: {"exp": c["exp"], "top_before": c["top_before"], "impl": c["res"], "top_after": c["top_after"]})
    if out is not None and not out.get("registries_unchanged", True):
        bad = bad + [{"registries_changed_by_history": True, "seed": seed}]
    if out is not None:
        res.count("max-leaked-top", 0)
        res.distribution["max-leaked-top"] = max([res.distribution.get("max-leaked-top", 0)] +
                                                 [c["top_before"] for c in out["cases"]])
    return bad, tie, err


def run(res, tier, seed, broken):
    big = tier == "thorough"
    bad, tie = [], []
    for h in range(12 if big else 3):
        b, t, err = history(res, "c19_h%d" % h, seed + h, 400 if big else 200)
        bad, tie = bad + b, tie + t
        if err:
            broken = broken + [{"obligation": "implementation side failed to run", "log": err[-3000:]}]
            break

    out, e2 = C.run_impl("impl_c19b.py", {"seed": seed, "n": 400 if big else 120})
    if out is None:
        broken = broken + [{"obligation": "backward-fault oracle failed to run", "log": (e2 or "")[-3000:]}]
    else:
        res.add_cases(out["n"], out["keys"], out["samples"][:1])
        for k, v in out["dist"].items():
            res.count(k, v)
        bad = bad + out["bad"]

    # operator-level histories: every public operator on failing functions, canaries and process-global state after each
    out3, e3 = C.run_impl("impl_c19c.py", {"seed": seed, "n": 64 if big else 40})
    if out3 is None:
        broken = broken + [{"obligation": "operator-history oracle failed to run", "log": (e3 or "")[-3000:]}]
    else:
        res.add_cases(out3["n"], out3["keys"], [])
        for k, v in out3["dist"].items():
            res.count(k, v)
        bad = bad + [dict(b, exp=b["operator"], top_before=0) for b in out3["bad"]]

    def hunt():
        for k in range(6 if big else 2):
            b, _, _ = history(res, "c19_hunt%d" % k, seed + 50 + k, 500)
            if b:
                return b
        return []

    C.decide(res, broken, tie, bad, hunt,
             lambda c: "a call's result depends on the calls made before it (differs from the fresh-interpreter spec)")


def replay(rp):
    print(rp["replay"])
    return 1


TECHNIQUE = "Coq theorem for all programs: the tagged evaluator commutes with strictly increasing renamings of trace ids, hence every call's result is the same from every counter state earlier (failed) calls can leave; counter bookkeeping theorems for both supplies; + correspondence of whole call histories with planted faults against the model started from the leaked state and against the history-free spec"
DESIGN_REF = "DESIGN.md 4.19"
LEVEL_TEXT = "Proved in full on the model for the design /repo implements (increasing id supply): result of every program independent of the counter state left by any history. Tie: whole-history correspondence with planted faults (forward and backward)."
LEVEL_NOTE = "Trusted: Coq kernel; model tied by correspondence; only exception faults raised from user code are injected."
