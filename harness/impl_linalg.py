"""linalg.inv / linalg.solve against Array/LinAlg.v: unimodular integer matrices (products of elementary integer
matrices), so the inverse is an integer matrix - which the Coq side verifies - and every rule's result is an integer
matrix up to float rounding; autograd's answers are rounded (and must be within 1e-6 of integers)."""
import json
import random
import sys
import warnings

import numpy as onp
import autograd.numpy as anp
from autograd import make_vjp, make_jvp

warnings.simplefilter("ignore")


def unimodular(rng, n):
    A = onp.eye(n)
    for _ in range(rng.randint(1, 2 * n + 1)):
        i, j = rng.randrange(n), rng.randrange(n)
        if i != j:
            E = onp.eye(n)
            E[i, j] = rng.choice([-2, -1, 1, 2])
            A = A @ E if rng.random() < 0.5 else E @ A
        else:
            P = onp.eye(n)
            k = rng.randrange(n)
            P[[i, k]] = P[[k, i]]
            A = P @ A
            if rng.random() < 0.3:
                A[i] = -A[i]
    return A


def ints(a, shape):
    a = onp.asarray(a)
    if a.shape != tuple(shape) or onp.iscomplexobj(a):
        return None
    r = onp.round(a)
    if not onp.all(onp.abs(r - a) < 1e-6):
        return "inexact"
    return [[int(t) for t in row] for row in r.reshape(shape[0], -1)]


def main():
    cfg = json.load(sys.stdin)
    rng = random.Random(cfg["seed"])
    out = {"cases": [], "dist": {}, "skipped": []}

    def dist(k):
        out["dist"][k] = out["dist"].get(k, 0) + 1
    for it in range(cfg.get("n", 60)):
        n = rng.randint(1, 4)
        p = rng.randint(1, 3)
        A = unimodular(rng, n)
        if onp.max(onp.abs(A)) > 60:
            continue
        B = onp.round(onp.linalg.inv(A))
        b = onp.array([[float(rng.randint(-3, 3)) for _ in range(p)] for _ in range(n)])
        kind = ["InvVjp", "InvJvp", "SolveVjpA", "SolveVjpB", "SolveJvpA", "SolveJvpB", "SolveValue", "DetValue", "DetVjp"][it % 9]
        vec = (kind.startswith("Solve") and rng.random() < 0.3)       # b a vector (1-D) instead of a matrix
        if vec:
            p = 1
            b = b[:, :1]
        bb = b[:, 0] if vec else b
        tshape = {"DetValue": (1, 1), "DetVjp": (1, 1), "InvVjp": (n, n), "InvJvp": (n, n), "SolveVjpA": (n, p), "SolveVjpB": (n, p), "SolveJvpA": (n, n), "SolveJvpB": (n, p), "SolveValue": (n, p)}[kind]
        T = onp.array([[float(rng.randint(-3, 3)) for _ in range(tshape[1])] for _ in range(tshape[0])])
        Tv = T[:, 0] if (vec and kind in ("SolveVjpA", "SolveVjpB", "SolveJvpB")) else T
        try:
            if kind == "InvVjp":
                r, sh = make_vjp(anp.linalg.inv)(A)[0](T), (n, n)
            elif kind == "InvJvp":
                r, sh = make_jvp(anp.linalg.inv)(A)(T)[1], (n, n)
            elif kind == "SolveVjpA":
                r, sh = make_vjp(lambda a: anp.linalg.solve(a, bb))(A)[0](Tv), (n, n)
            elif kind == "SolveVjpB":
                r, sh = make_vjp(lambda y: anp.linalg.solve(A, y))(bb)[0](Tv), (n, p)
            elif kind == "SolveJvpA":
                r, sh = make_jvp(lambda a: anp.linalg.solve(a, bb))(A)(T)[1], (n, p)
            elif kind == "SolveJvpB":
                r, sh = make_jvp(lambda y: anp.linalg.solve(A, y))(bb)(Tv)[1], (n, p)
            elif kind == "DetValue":
                r, sh = onp.reshape(anp.linalg.det(A), (1, 1)), (1, 1)
            elif kind == "DetVjp":
                r, sh = make_vjp(anp.linalg.det)(A)[0](float(T[0, 0])), (n, n)
            else:
                r, sh = anp.linalg.solve(A, bb), (n, p)
        except NotImplementedError as ex:
            dist("linalg:%s raises NotImplementedError (allowed)" % kind)
            out["skipped"].append("%s: %r" % (kind, ex))
            continue
        r = onp.asarray(r)
        want_shape = (sh[0],) if (vec and sh[1] == 1 and kind not in ("SolveVjpA",)) else sh
        li = ints(r.reshape(sh) if r.shape == want_shape else r, sh)
        if li == "inexact":
            out["skipped"].append("%s: result not within 1e-6 of integers" % kind)
            dist("linalg:skipped-inexact")
            continue
        ok = li is not None and r.shape == want_shape
        out["cases"].append({"n": n, "p": p, "A": [[int(t) for t in row] for row in A], "B": [[int(t) for t in row] for row in B],
                             "b": [[int(t) for t in row] for row in b], "T": [[int(t) for t in row] for row in T], "kind": kind,
                             "impl": li if ok else [], "ok": bool(ok), "vector_rhs": bool(vec)})
        dist("linalg:%s%s" % (kind, " (vector right-hand side)" if vec else ""))
    print(json.dumps(out))


if __name__ == "__main__":
    main()
