#!/bin/sh
# usage: harness/try_batch.sh <prefix, e.g. /tmp/wt3_> <ids...> : try seed_1 and seed_2 of each worktree against its own property's check
pre="$1"; shift
for id in "$@"; do
  for i in 1 2; do
    d=${pre}${id}/seed_$i
    [ -f "$d/patch.diff" ] || { echo "$id seed_$i: missing"; continue; }
    r=$(/verif/harness/try_seed.sh "$d" "$id" 2>&1)
    t=$(echo "$r" | grep -c "496 passed")
    dm=$(echo "$r" | grep "demo exit" | tr '\n' ' ')
    v=$(echo "$r" | grep -c "^VIOLATION property=$id")
    echo "$id seed_$i: tests_ok=$t $dm violations=$v"
  done
done
