"""Selection primitives (coq/theories/Array/Select.v): functions that only move entries of their argument (possibly
several times, possibly with a sign) and fill the rest of the output with values that do not depend on it.  For each
configuration the selection list is read off NumPy's own result at a point whose entries have distinct absolute values
(spaced by 10, so that a displacement of at most 3 keeps every order relation and every comparison with a constant),
and the implementation's VJP / JVP are handed to the model."""
import json
import random
import sys
import warnings

import numpy as onp
import autograd.numpy as anp
from autograd import make_vjp, make_jvp

warnings.simplefilter("ignore")


def table(rng):
    T = []

    def add(prim, tag, f, shape, signed=False):
        T.append((prim, tag, f, shape, signed))
    A = (2, 3)
    B = (3, 4)
    C3 = (2, 3, 2)
    for sh, new in ((A, (3, 2)), (A, (-1,)), (A, (6, 1)), (C3, (4, -1)), ((), (1, 1)), ((1,), ()), (B, (2, 2, 3))):
        add("reshape", "%s->%s" % (sh, new), (lambda m, z, new=new: m.reshape(z, new)), sh)
        add("reshape-method", "%s->%s" % (sh, new), (lambda m, z, new=new: z.reshape(new)), sh)
    add("reshape", "order=F", (lambda m, z: m.reshape(z, (3, 2), order="F")), A)
    for sh in (A, C3, ()):
        add("ravel", "%s" % (sh,), (lambda m, z: m.ravel(z)), sh)
    add("ravel", "order=F", (lambda m, z: m.ravel(z, order="F")), A)
    add("flatten-method", "", (lambda m, z: z.flatten()), A)
    for sh, axes in ((A, None), (A, (1, 0)), (C3, (2, 0, 1)), (C3, (0, 2, 1)), (C3, (-1, -3, -2)), (C3, None)):
        add("transpose", "%s axes=%s" % (sh, axes), (lambda m, z, axes=axes: m.transpose(z, axes)), sh)
    add("T-attribute", "", (lambda m, z: z.T), C3)
    for a1, a2 in ((0, 1), (0, 2), (-1, 0), (1, 1)):
        add("swapaxes", "%d,%d" % (a1, a2), (lambda m, z, a1=a1, a2=a2: m.swapaxes(z, a1, a2)), C3)
    for src, dst in ((0, -1), (2, 0), ((0, 1), (1, 2)), (-1, -3)):
        add("moveaxis", "%s->%s" % (src, dst), (lambda m, z, src=src, dst=dst: m.moveaxis(z, src, dst)), C3)
    add("rollaxis", "2,0", (lambda m, z: m.rollaxis(z, 2, 0)), C3)
    for sh, ax in (((1, 3), None), ((1, 3), 0), ((2, 1, 1), None), ((2, 1, 1), -1), ((2, 1, 1), (1, 2))):
        add("squeeze", "%s axis=%s" % (sh, ax), (lambda m, z, ax=ax: m.squeeze(z, axis=ax)), sh)
    for ax in (0, 1, -1, 2):
        add("expand_dims", "axis=%d" % ax, (lambda m, z, ax=ax: m.expand_dims(z, ax)), A)
    for name in ("atleast_1d", "atleast_2d", "atleast_3d"):
        for sh in ((), (3,), A):
            add(name, "%s" % (sh,), (lambda m, z, name=name: getattr(m, name)(z)), sh)
    for ax in (None, 0, 1, -1, (0, 1)):
        add("flip", "axis=%s" % (ax,), (lambda m, z, ax=ax: m.flip(z, ax)), A)
    add("fliplr", "", (lambda m, z: m.fliplr(z)), A)
    add("flipud", "", (lambda m, z: m.flipud(z)), A)
    for sft, ax in ((1, None), (-2, None), (1, 0), (2, 1), (-1, -1), ((1, 2), (0, 1)), (7, 1)):
        add("roll", "shift=%s axis=%s" % (sft, ax), (lambda m, z, sft=sft, ax=ax: m.roll(z, sft, axis=ax)), B)
    for k in (1, 2, 3, -1):
        add("rot90", "k=%d" % k, (lambda m, z, k=k: m.rot90(z, k)), A)
    for reps, ax in ((2, None), (3, 0), (2, 1), (2, -1), ([1, 2], 0), ([2, 0, 1], 1)):
        add("repeat", "repeats=%s axis=%s" % (reps, ax), (lambda m, z, reps=reps, ax=ax: m.repeat(z, reps, axis=ax)), A)
    for reps in (2, (2, 1), (1, 2), (2, 1, 2), (1, 1)):
        add("tile", "reps=%s" % (reps,), (lambda m, z, reps=reps: m.tile(z, reps)), A)
    for sh, tgt in (((3,), (2, 3)), ((2, 1), (2, 3)), ((), (2, 2)), ((1, 3), (2, 2, 3))):
        add("broadcast_to", "%s->%s" % (sh, tgt), (lambda m, z, tgt=tgt: m.broadcast_to(z, tgt)), sh)
    for idx, ax in (([0, 2, 2], 1), ([1, 0, 1, 1], 0), ([-1, 0], -1), ([[0, 1], [1, 1]], 0), (2, 1)):
        add("take", "indices=%s axis=%s" % (idx, ax), (lambda m, z, idx=idx, ax=ax: m.take(z, onp.array(idx), axis=ax)), A)
    add("take", "flat", (lambda m, z: m.take(z, onp.array([5, 0, 0, 3]))), A)
    for k in (0, 1, -1, 2):
        add("diag", "vector k=%d" % k, (lambda m, z, k=k: m.diag(z, k)), (3,))
        add("diag", "matrix k=%d" % k, (lambda m, z, k=k: m.diag(z, k)), B)
        add("diagonal", "offset=%d" % k, (lambda m, z, k=k: m.diagonal(z, k)), B)
        add("tril", "k=%d" % k, (lambda m, z, k=k: m.tril(z, k)), B)
        add("triu", "k=%d" % k, (lambda m, z, k=k: m.triu(z, k)), B)
    add("diagonal", "axes 0,2", (lambda m, z: m.diagonal(z, 0, 0, 2)), C3)
    add("diagonal", "axes -1,0 offset 1", (lambda m, z: m.diagonal(z, 1, -1, 0)), C3)
    add("tril", "batched", (lambda m, z: m.tril(z)), C3)
    for width in (1, (1, 2), ((1, 0), (0, 2)), ((0, 0), (2, 1))):
        add("pad", "constant width=%s" % (width,), (lambda m, z, width=width: m.pad(z, width, mode="constant")), A)
    add("pad", "constant_values=7.0", (lambda m, z: m.pad(z, 1, mode="constant", constant_values=7.0)), A)
    for mode in ("edge", "reflect", "symmetric", "wrap"):
        add("pad", "mode=%s" % mode, (lambda m, z, mode=mode: m.pad(z, ((1, 2), (2, 1)), mode)), B)
    other = onp.array([[7.0, 8.0, 9.0], [11.0, 12.0, 13.0]])
    for ax in (0, 1, -1):
        add("concatenate", "first block axis=%d" % ax, (lambda m, z, ax=ax: m.concatenate([z, other], axis=ax)), A)
        add("concatenate", "middle block, twice, axis=%d" % ax, (lambda m, z, ax=ax: m.concatenate((other, z, z), axis=ax)), A)
        add("stack", "axis=%d" % ax, (lambda m, z, ax=ax: m.stack([other, z], axis=ax)), A)
    add("vstack", "", (lambda m, z: m.vstack([z, other, z])), A)
    add("hstack", "", (lambda m, z: m.hstack([other, z])), A)
    add("column_stack", "", (lambda m, z: m.column_stack([z, onp.array([5.0, 15.0])])), A)
    add("append", "flat", (lambda m, z: m.append(z, other)), A)
    add("append", "axis=0", (lambda m, z: m.append(other, z, axis=0)), A)
    add("array", "nested list of entries", (lambda m, z: m.array([[z[0, 1], 5.0], [z[1, 2], z[0, 1]]])), A)
    add("array", "list of rows", (lambda m, z: m.array([z[1], z[0], z[1]])), A)
    add("split", "piece 1 of 3", (lambda m, z: m.split(z, 3, axis=1)[1]), A)
    add("array_split", "piece 0 of 2", (lambda m, z: m.array_split(z, 2, axis=1)[0]), A)
    add("hsplit", "piece 2", (lambda m, z: m.hsplit(z, 3)[2]), A)
    add("vsplit", "piece 1", (lambda m, z: m.vsplit(z, 2)[1]), A)
    cond = onp.array([[True, False, True], [False, False, True]])
    add("where", "first branch", (lambda m, z: m.where(cond, z, other)), A)
    add("where", "second branch", (lambda m, z: m.where(cond, other, z)), A)
    add("where", "both branches", (lambda m, z: m.where(cond, z, z[::-1])), A)
    add("where", "broadcast branch", (lambda m, z: m.where(cond[0], z, 5.0)), (3,))
    add("select", "two conditions", (lambda m, z: m.select([cond, ~cond & (other > 9)], [z, z[:, ::-1]], default=5.0)), A)
    add("getitem", "stepped slices", (lambda m, z: z[::-1, ::2]), B)
    add("getitem", "integer arrays with repeats", (lambda m, z: z[[0, 0, 2], [1, 1, 3]]), B)
    add("getitem", "boolean mask", (lambda m, z: z[cond]), A)
    add("getitem", "newaxis and ellipsis", (lambda m, z: z[None, ..., 1]), C3)
    add("copy-like", "x + 0 is not a selection of weight 2", (lambda m, z: m.array(z)), A)
    # value-dependent selections: locally constant away from ties
    for ax in (None, 0, 1, -1):
        add("sort", "axis=%s" % (ax,), (lambda m, z, ax=ax: m.sort(z, axis=ax)), B, True)
        add("max", "axis=%s" % (ax,), (lambda m, z, ax=ax: m.max(z, axis=ax)), B, True)
        add("min", "axis=%s keepdims" % (ax,), (lambda m, z, ax=ax: m.min(z, axis=ax, keepdims=True)), B, True)
        add("amax", "axis=%s" % (ax,), (lambda m, z, ax=ax: m.amax(z, axis=ax)), B, True)
    add("sort", "1-D", (lambda m, z: m.sort(z)), (5,), True)
    add("sort", "1-D axis=-1", (lambda m, z: m.sort(z, axis=-1)), (5,), True)
    add("partition", "1-D kth=2", (lambda m, z: m.partition(z, 2)), (5,), True)
    add("diagonal", "last two axes", (lambda m, z: m.diagonal(z, 0, -1, -2)), C3)
    add("diagonal", "last two axes of a matrix", (lambda m, z: m.diagonal(z, axis1=-1, axis2=-2)), B)
    # inputs large enough for NumPy to switch algorithms (introselect / different arrangements of partition and argpartition)
    add("partition", "1-D n=1000 kth=333", (lambda m, z: m.partition(z, 333)), (1000,), True)
    add("partition", "1-D n=600 kth=(10, 500)", (lambda m, z: m.partition(z, (10, 500))), (600,), True)
    add("sort", "1-D n=1000", (lambda m, z: m.sort(z)), (1000,), True)
    add("max", "n=1000", (lambda m, z: m.max(z)), (1000,), True)
    add("msort-like", "sort axis=0 of 3-D", (lambda m, z: m.sort(z, axis=0)), C3, True)
    add("partition", "kth=1", (lambda m, z: m.partition(z, 1, axis=1)), B, True)
    for name in ("maximum", "minimum", "fmax", "fmin"):
        add(name, "against a constant array", (lambda m, z, name=name: getattr(m, name)(z, onp.array([5.0, -1025.0, 1035.0]))), A, True)
        add(name, "against its own reverse", (lambda m, z, name=name: getattr(m, name)(z, z[::-1])), A, True)
        add(name, "scalar first", (lambda m, z, name=name: getattr(m, name)(15.0, z)), A, True)
    add("clip", "both bounds", (lambda m, z: m.clip(z, -1015.0, 1025.0)), A, True)
    add("clip", "upper bound only", (lambda m, z: m.clip(z, None, 1015.0)), A, True)
    add("abs", "", (lambda m, z: m.abs(z)), A, True)
    add("fabs", "", (lambda m, z: m.fabs(z)), A, True)
    add("absolute", "", (lambda m, z: m.absolute(z)), A, True)
    add("negative", "", (lambda m, z: m.negative(z)), A, True)
    add("neg-operator", "", (lambda m, z: -z), A, True)
    add("positive", "", (lambda m, z: +z), A, True)
    add("real", "of a real array", (lambda m, z: m.real(z)), A)
    add("conj", "of a real array", (lambda m, z: m.conj(z)), A)
    add("nan_to_num", "finite entries", (lambda m, z: m.nan_to_num(z)), A)
    add("copysign", "constant signs", (lambda m, z: m.copysign(z, onp.array([1.0, -1.0, 1.0]))), A, True)
    add("ptp-pieces", "max minus min is not a selection but max is", (lambda m, z: m.max(z, axis=1)), A, True)
    add("median", "odd count", (lambda m, z: m.median(z, axis=0)), (3, 2), True)
    add("squeeze-method", "", (lambda m, z: z.squeeze()), (1, 3))
    add("trace-free diag round trip", "diag(diag(M))", (lambda m, z: m.diag(m.diag(z))), (3, 3))
    add("triu of outer shape", "tril(triu)", (lambda m, z: m.tril(m.triu(z, -1), 1)), B)
    return T


def main():
    cfg = json.load(sys.stdin)
    rng = random.Random(cfg["seed"])
    out = {"cases": [], "dist": {}, "skipped": []}
    only = cfg.get("only")
    for prim, tag, f, shape, signed in table(rng):
        if only and prim not in only:
            continue
        n = int(onp.prod(shape)) if shape else 1
        mags = [1000 + 10 * i for i in range(n)]
        rng.shuffle(mags)
        xs = [m * (rng.choice([1, -1]) if signed else 1) for m in mags]
        x = onp.array(xs, float).reshape(shape)
        v = onp.array([rng.randint(-3, 3) for _ in range(n)], float).reshape(shape)
        case = {"prim": prim, "tag": tag, "shape": list(shape), "n": n, "x": [int(t) for t in xs], "v": [int(t) for t in v.ravel()]}
        try:
            y = onp.asarray(f(onp, x), float)
            y2 = onp.asarray(f(onp, x + v), float)
        except Exception as ex:           # NumPy rejects the configuration
            out["skipped"].append("%s %s: %r" % (prim, tag, ex))
            continue
        pos = {abs(t): i for i, t in enumerate(xs)}
        sel, consts = [], []
        if not (onp.all(y == onp.round(y)) and onp.all(y2 == onp.round(y2))):
            out["skipped"].append("%s %s: values are not integers" % (prim, tag))
            continue
        for t in [int(t) for t in y.ravel()]:
            if abs(t) in pos:
                i = pos[abs(t)]
                sel.append([i, 1 if t == xs[i] else -1])
                consts.append(0)
            else:
                sel.append(None)
                consts.append(t)
        g = onp.array([rng.randint(-3, 3) for _ in range(y.size)], float).reshape(y.shape)
        case.update({"sel": sel, "consts": consts, "y": [int(t) for t in y.ravel()], "y2": [int(t) for t in y2.ravel()],
                     "g": [int(t) for t in g.ravel()]})
        ok = True
        try:
            vjp, val = make_vjp(lambda z: f(anp, z))(x)
            vj = onp.asarray(vjp(g if y.shape else float(g)))
            ok = ok and vj.shape == x.shape and onp.shape(val) == y.shape
            case["vjp"] = [int(t) for t in vj.ravel()]
            if not onp.all(vj == onp.round(vj)):
                ok = False
        except (NotImplementedError, TypeError, ValueError, AssertionError, IndexError, KeyError, NameError, AttributeError) as ex:
            out["dist"]["selection:reverse-mode-raises (allowed)"] = out["dist"].get("selection:reverse-mode-raises (allowed)", 0) + 1
            out["skipped"].append("%s %s: %r" % (prim, tag, ex))
            continue
        except Exception as ex:
            case.update({"vjp": [], "error": repr(ex)})
            ok = False
        try:
            jv = onp.asarray(make_jvp(lambda z: f(anp, z))(x)(v)[1])
            ok = ok and jv.shape == y.shape
            case["jvp"] = [int(t) for t in jv.ravel()]
        except NotImplementedError:
            case["jvp"] = None
        except Exception as ex:
            case.update({"jvp": None, "error_fwd": repr(ex)})
            if not isinstance(ex, (TypeError, ValueError, AssertionError, IndexError, KeyError, NameError, AttributeError)):
                ok = False
        case["ok"] = bool(ok)
        k = "selection:%s" % ("value-dependent" if signed else "structural")
        out["dist"][k] = out["dist"].get(k, 0) + 1
        if case["jvp"] is None:
            out["dist"]["selection:no-forward-rule"] = out["dist"].get("selection:no-forward-rule", 0) + 1
        out["cases"].append(case)
    print(json.dumps(out))


if __name__ == "__main__":
    main()
