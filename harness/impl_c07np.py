"""Implementation side of C07 for the built-in primitives: for every call
configuration of the rule table (impl_rules.cases) plus special-value
configurations, the differentiated real arguments are packed into one vector z
and the second derivative of two scalarisations of F(z) is computed by all four
mode sequences

    rev-over-rev   grad(z -> <grad S(z), v>)
    fwd-over-rev   make_jvp(grad S)(z)(v)
    rev-over-fwd   grad(z -> make_jvp(S)(z)(v))
    fwd-over-fwd   make_jvp(z -> make_jvp(S)(z)(v))(z)(u)     (= <u, H v>)

  S_lin(z) = <w, F(z)>                       generic cotangent w
  S_fit(z) = 1/2 |F(z) - F(z0)|^2  at z0     cotangent EXACTLY zero: H = J^T J

and compared with each other and with the truth: for S_lin a Richardson central
difference of the first-order gradient (first order is settled by C01/C02), for
S_fit the first-order composition J^T (J v).  A sequence that raises is allowed
and counted.  The Hessian's symmetry is checked as <u, H v> = <v, H u>."""
import json
import random
import sys
import warnings

import numpy as onp
import autograd.numpy as anp
from autograd import grad, make_jvp, make_vjp

sys.path.insert(0, __file__.rsplit("/", 1)[0])
import impl_rules as R  # noqa: E402

warnings.simplefilter("ignore")
onp.seterr(all="ignore")

LOUD = (NotImplementedError, TypeError, ValueError, AssertionError, IndexError, KeyError, NameError, AttributeError)


def special_cases(rng):
    """configurations at special exact values, where a rule body that branches on a traced value would go wrong"""
    out = []

    def add(prim, tag, f, args, diff):
        out.append(R.Case(prim, tag + " special-values", f, args, diff, False))
    xs = onp.array([1.0, 2.0, 0.5, 3.0])
    for p in (2.0, 1.0, 0.0, 3.0, -1.0, 0.5):
        add("power", "x**p scalar p=%s" % p, (lambda m, a, b: m.power(a, b)), [xs, onp.array(p)], [0, 1])
        add("op**", "x**p scalar p=%s" % p, (lambda m, a, b: a ** b), [xs, onp.array(p)], [0, 1])
    add("power", "x**p array p with 2,1,0", (lambda m, a, b: m.power(a, b)), [xs, onp.array([2.0, 1.0, 0.0, 3.0])], [0, 1])
    add("power", "base 1 and 2", (lambda m, a, b: m.power(a, b)), [onp.array([1.0, 1.0, 2.0]), onp.array([2.0, 0.0, 2.0])], [0, 1])
    for name in ("multiply", "divide", "add", "subtract", "maximum", "minimum", "arctan2", "hypot", "logaddexp"):
        add(name, "operands 0,1,2", (lambda m, a, b, name=name: getattr(m, name)(a, b)),
            [onp.array([0.0, 1.0, 2.0, -1.0]), onp.array([2.0, 1.0, 1.0, 3.0])], [0, 1])
        add(name, "scalar operand 1.0", (lambda m, a, b, name=name: getattr(m, name)(a, b)),
            [onp.array([0.5, 1.0, 2.0, -1.0]), onp.array(1.0)], [0, 1])
        add(name, "scalar operand 2.0 first", (lambda m, a, b, name=name: getattr(m, name)(a, b)),
            [onp.array(2.0), onp.array([0.5, 1.0, 2.0, -1.5])], [0, 1])
    for name in ("exp", "sin", "cos", "tanh", "square", "sqrt", "log", "log1p", "expm1", "sinh", "cosh", "arctan", "reciprocal",
                 "abs", "sinc", "negative"):
        x = onp.array([1.0, 2.0, 0.5]) if name in ("sqrt", "log", "reciprocal") else onp.array([0.0, 1.0, 2.0, -1.0])
        if name == "abs":
            x = onp.array([1.0, 2.0, -1.0])
        add(name, "at 0,1,2", (lambda m, a, name=name: getattr(m, name)(a)), [x], [0])
    eye, two = onp.eye(2), onp.array([[2.0, 0.0], [1.0, 1.0]])
    for name, f in (("dot", lambda m, a, b: m.dot(a, b)), ("matmul", lambda m, a, b: m.matmul(a, b)), ("op@", lambda m, a, b: a @ b),
                    ("tensordot", lambda m, a, b: m.tensordot(a, b, 1)), ("inner", lambda m, a, b: m.inner(a, b)),
                    ("outer", lambda m, a, b: m.outer(a, b)), ("kron", lambda m, a, b: m.kron(a, b)),
                    ("einsum", lambda m, a, b: m.einsum("ij,jk->ik", a, b)), ("multiply", lambda m, a, b: a * b)):
        add(name, "identity and zero operands", f, [eye, two], [0, 1])
        add(name, "zero matrix operand", f, [onp.zeros((2, 2)), two], [0, 1])
        add(name, "vector operands with zeros", f, [onp.array([0.0, 1.0]), onp.array([2.0, 0.0])], [0, 1])
    # gauge-invariant functions of eigenvectors (well separated spectrum)
    asym = onp.array([[2.0, 0.3, -0.1], [0.2, -1.0, 0.4], [0.1, -0.2, 4.0]])
    symm = onp.array([[2.0, 0.3, -0.1], [0.3, -1.0, 0.4], [-0.1, 0.4, 4.0]])
    add("linalg.eig", "|eigenvectors|^2", (lambda m, a: m.abs(m.linalg.eig(a)[1]) ** 2), [asym], [0])
    add("linalg.eig", "eigenvalues", (lambda m, a: m.real(m.linalg.eig(a)[0])), [asym], [0])
    add("linalg.eigh", "eigenvectors^2", (lambda m, a: m.linalg.eigh((a + a.T) / 2)[1] ** 2), [symm], [0])
    add("linalg.eigh", "projector", (lambda m, a: (lambda w, v: m.dot(v[:, :1], v[:, :1].T))(*m.linalg.eigh((a + a.T) / 2))), [symm], [0])
    add("linalg.svd", "U diag(s) Vt", (lambda m, a: (lambda u, sv, vt: m.dot(u * sv, vt))(*m.linalg.svd(a, full_matrices=False))), [asym[:2]], [0])
    add("linalg.svd", "|U|^2 and |V|^2", (lambda m, a: (lambda u, sv, vt: m.concatenate([m.ravel(u ** 2), m.ravel(vt ** 2)]))(*m.linalg.svd(a, full_matrices=False))), [asym[:2]], [0])
    add("linalg.qr", "R^2", (lambda m, a: m.linalg.qr(a)[1] ** 2), [asym], [0])
    add("linalg.solve", "identity", (lambda m, a, b: m.linalg.solve(a, b)), [eye * 2.0, onp.array([1.0, 0.0])], [0, 1])
    add("linalg.inv", "identity", (lambda m, a: m.linalg.inv(a)), [eye], [0])
    add("linalg.det", "identity", (lambda m, a: m.linalg.det(a)), [eye], [0])
    add("linalg.norm", "unit vector", (lambda m, a: m.linalg.norm(a)), [onp.array([1.0, 0.0, 0.0])], [0])
    add("sum", "zeros", (lambda m, a: m.sum(a * a, axis=0)), [onp.zeros((2, 2))], [0])
    add("prod", "with a one", (lambda m, a: m.prod(a)), [onp.array([1.0, 2.0, 3.0])], [0])
    add("where", "mixed", (lambda m, a, b: m.where(a > 0.5, a * b, b * b)), [onp.array([1.0, 0.0, 2.0]), onp.array([2.0, 1.0, 0.0])], [0, 1])
    add("clip", "interior", (lambda m, a: m.clip(a * a, 0.5, 10.0)), [onp.array([1.0, 2.0])], [0])
    add("getitem", "repeated index", (lambda m, a: a[[0, 0, 1]] * a[[1, 0, 0]]), [onp.array([1.0, 2.0])], [0])
    add("concatenate", "square", (lambda m, a, b: m.concatenate([a * b, a * a])), [onp.array([1.0, 2.0]), onp.array([0.0, 1.0])], [0, 1])
    return out


def real_float(a):
    return isinstance(a, (float, onp.floating)) or (isinstance(a, onp.ndarray) and a.dtype.kind in "fc")


def main():
    cfg = json.load(sys.stdin)
    rng = random.Random(cfg["seed"])
    tier = cfg.get("tier", "quick")
    table = R.cases(rng, tier) + R.complex_cases(rng, tier)
    only = cfg.get("only")
    if tier != "thorough":
        frac = cfg.get("fraction", 0.35)
        table = [c for c in table if rng.random() < frac or c.tag.endswith(" complex")]
    table = special_cases(rng) + table
    out = {"n": 0, "keys": [], "bad": [], "dist": {}, "samples": []}

    def dist(k):
        out["dist"][k] = out["dist"].get(k, 0) + 1
    for c in table:
        if only and c.prim not in only:
            continue
        ks = [k for k in c.diff if real_float(c.args[k])]
        if not ks:
            continue
        shapes = [onp.shape(c.args[k]) for k in ks]
        sizes = [int(onp.prod(s)) if s else 1 for s in shapes]
        cplx = [onp.iscomplexobj(c.args[k]) for k in ks]
        # a complex argument is packed as its real part followed by its imaginary part
        z0 = onp.concatenate([onp.concatenate([onp.real(onp.asarray(c.args[k])).ravel(), onp.imag(onp.asarray(c.args[k])).ravel()])
                              if cx else onp.asarray(c.args[k], float).ravel() for k, cx in zip(ks, cplx)]) if ks else onp.zeros(0)
        if z0.size == 0 or z0.size > 40:
            continue
        pyfloat = [isinstance(c.args[k], float) for k in ks]

        def F(m, z, c=c, ks=ks, shapes=shapes, sizes=sizes, pyfloat=pyfloat, cplx=cplx):
            a = list(c.args)
            off = 0
            for k, s, n, pf, cx in zip(ks, shapes, sizes, pyfloat, cplx):
                piece = z[off] if s == () else m.reshape(z[off:off + n], s)
                off += n
                if cx:
                    im = z[off] if s == () else m.reshape(z[off:off + n], s)
                    off += n
                    piece = piece + 1j * im
                a[k] = piece
            y = c.f(m, *a)
            if isinstance(getattr(y, "_value", y), (tuple, list)):
                y = m.concatenate([m.ravel(t) for t in y])
            y = m.ravel(y) if not onp.iscomplexobj(getattr(y, "_value", y)) else m.concatenate([m.ravel(m.real(y)), m.ravel(m.imag(y))])
            return y
        try:
            y0 = onp.asarray(F(onp, z0), float)
        except Exception:
            continue
        if y0.size == 0 or not onp.all(onp.isfinite(y0)):
            continue
        r = onp.random.RandomState(rng.randint(0, 2 ** 31 - 1))
        w = r.randint(1, 4, y0.shape).astype(float) * r.choice([-1.0, 1.0], y0.shape)
        v = r.randint(1, 4, z0.shape).astype(float) * r.choice([-1.0, 1.0], z0.shape)
        u = r.randint(1, 4, z0.shape).astype(float) * r.choice([-1.0, 1.0], z0.shape)
        S = {"lin": (lambda m, z: m.sum(w * F(m, z))),
             "fit": (lambda m, z: 0.5 * m.sum((F(m, z) - y0) ** 2))}
        # first order must be available, otherwise this is not a supported configuration
        try:
            g0 = onp.asarray(grad(lambda z: S["lin"](anp, z))(z0), float)
        except LOUD:
            dist("first-order-unsupported")
            continue
        except Exception:
            dist("first-order-error")
            continue
        jv_numeric = False
        try:
            jv0 = onp.asarray(make_jvp(lambda z: F(anp, z))(z0)(v)[1], float)
        except Exception:
            # no forward rule: J v from a Richardson difference quotient of the NumPy function
            dist("no-forward-rule")
            try:
                def cdF(d, h):
                    return (onp.asarray(F(onp, z0 + h * d), float) - onp.asarray(F(onp, z0 - h * d), float)) / (2 * h)
                e1, e2 = (4 * cdF(v, 1e-3) - cdF(v, 2e-3)) / 3, (4 * cdF(v, 5e-4) - cdF(v, 1e-3)) / 3
                jv0 = e2 if onp.all(onp.isfinite(e2)) and onp.max(onp.abs(e1 - e2)) <= 1e-7 * (1 + onp.max(onp.abs(e2))) else None
                jv_numeric = jv0 is not None
            except Exception:
                jv0 = None
        if not onp.all(onp.isfinite(g0)) or (jv0 is not None and not onp.all(onp.isfinite(jv0))):
            continue
        out["n"] += 1
        out["keys"].append("%s|%s" % (c.prim, c.tag))
        if len(out["samples"]) < 3:
            out["samples"].append({"primitive": c.prim, "configuration": c.tag, "z0": z0.tolist()})
        for sname, Sm in S.items():
            if sname == "fit" and jv0 is None:
                continue
            s_ag = lambda z, Sm=Sm: Sm(anp, z)  # noqa: E731
            # ---- truth ----
            try:
                if sname == "fit":
                    vjpF = make_vjp(lambda z: F(anp, z))(z0)[0]
                    Hv_true = onp.asarray(vjpF(jv0), float)
                    Hu_true = None
                    tol = 2e-5 if jv_numeric else 1e-9
                else:
                    def gnum(z):
                        return onp.asarray(grad(s_ag)(z), float)

                    def cd(d, h):
                        return (gnum(z0 + h * d) - gnum(z0 - h * d)) / (2 * h)
                    est = [(4 * cd(v, h / 2) - cd(v, h)) / 3 for h in (2e-3, 1e-3)]
                    if not onp.all(onp.isfinite(est[0])) or onp.max(onp.abs(est[0] - est[1])) > 1e-6 * (1 + onp.max(onp.abs(est[0]))):
                        dist("lin:not-smooth-here")
                        continue
                    Hv_true = est[1]
                    tol = 2e-5
            except Exception:
                dist(sname + ":truth-unavailable")
                continue
            scale = 1.0 + float(onp.max(onp.abs(Hv_true)))
            try:
                make_jvp(s_ag)(z0)(v)
                fwd1_ok = True
            except Exception:
                fwd1_ok = False
            seqs = {
                "rev-over-rev": lambda: grad(lambda z: anp.sum(grad(s_ag)(z) * v))(z0),
                "fwd-over-rev": lambda: make_jvp(grad(s_ag))(z0)(v)[1],
                "rev-over-fwd": lambda: grad(lambda z: make_jvp(s_ag)(z)(v)[1])(z0),
            }
            got = {}
            for qn, th in seqs.items():
                try:
                    got[qn] = onp.asarray(th(), float)
                    dist("%s:%s:computed" % (sname, qn))
                except LOUD as ex:
                    dist("%s:%s:raises" % (sname, qn))
                    # differentiation is closed under itself: where the first derivative exists in the modes involved,
                    # the second one does too (a forward rule may be missing altogether: then forward mode raises at
                    # first order already, which is the supported way of saying so)
                    # (NotImplementedError is how a missing rule of some primitive the first derivative is built from -
                    #  e.g. the JVP of svd - announces itself: allowed)
                    if (qn == "rev-over-rev" or fwd1_ok) and not isinstance(ex, NotImplementedError):
                        out["bad"].append({"primitive": c.prim, "configuration": c.tag, "scalarisation": sname, "sequence": qn,
                                           "what": "first-order differentiation works in the modes involved, but %s raises %s: %s" % (qn, type(ex).__name__, str(ex)[:100]),
                                           "z0": z0.tolist(), "site": {"primitive": c.prim, "kind": "second-order", "configuration": c.tag}})
                except Exception as ex:
                    dist("%s:%s:raises-other" % (sname, qn))
                    out["bad"].append({"primitive": c.prim, "configuration": c.tag, "scalarisation": sname, "sequence": qn,
                                       "what": "unexpected %s: %s" % (type(ex).__name__, str(ex)[:100]), "z0": z0.tolist(),
                                       "site": {"primitive": c.prim, "kind": "second-order"}})
            try:
                ff = float(make_jvp(lambda z: make_jvp(s_ag)(z)(v)[1])(z0)(u)[1])
                dist("%s:fwd-over-fwd:computed" % sname)
            except Exception:
                ff = None
                dist("%s:fwd-over-fwd:raises" % sname)
            # the library's own second-order operators: they work wherever grad-of-grad works, and agree with it
            if "rev-over-rev" in got and z0.size <= 12:
                from autograd import hessian, hessian_vector_product, make_hvp, hessian_tensor_product
                p0 = onp.linspace(0.5, 1.5, z0.size).reshape(z0.shape)
                s_pad = lambda p_, z_: s_ag(z_) + anp.sum(p_ * p_ * p_) * anp.sum(z_)    # noqa: E731  (linear in z_: same Hessian block)
                for on, th in (("hessian_vector_product", lambda: hessian_vector_product(s_ag)(z0, v)),
                               ("hessian_tensor_product", lambda: hessian_tensor_product(s_ag)(z0, v)),
                               ("make_hvp", lambda: make_hvp(s_ag)(z0)[0](v)),
                               ("hessian", lambda: onp.dot(hessian(s_ag)(z0), v)),
                               # ... and for an argument other than the first (the same function behind another parameter)
                               ("hessian_vector_product argnum=1", lambda: hessian_vector_product(s_pad, 1)(p0, z0, v)),
                               ("hessian_tensor_product argnum=1", lambda: hessian_tensor_product(s_pad, 1)(p0, z0, v)),
                               ("make_hvp argnum=1", lambda: make_hvp(s_pad, 1)(p0, z0)[0](v)),
                               ("hessian argnum=1", lambda: onp.dot(hessian(s_pad, 1)(p0, z0), v))):
                    try:
                        got[on] = onp.asarray(th(), float)
                        dist("%s:%s:computed" % (sname, on))
                    except Exception as ex:
                        dist("%s:%s:RAISES" % (sname, on))
                        out["bad"].append({"primitive": c.prim, "configuration": c.tag, "scalarisation": sname, "sequence": on,
                                           "what": "grad of grad is available for this configuration but %s raises %s: %s" % (on, type(ex).__name__, str(ex)[:80]),
                                           "z0": z0.tolist(), "site": {"primitive": c.prim, "kind": "second-order"}})
            problems = []
            for qn, hv in got.items():
                if hv.shape != Hv_true.shape:
                    problems.append("%s has shape %s, expected %s" % (qn, hv.shape, Hv_true.shape))
                elif not onp.all(onp.abs(hv - Hv_true) <= tol * scale):
                    i = int(onp.argmax(onp.abs(hv - Hv_true)))
                    problems.append("%s: (H v)[%d] = %.10g, true %.10g" % (qn, i, hv[i], Hv_true[i]))
            if ff is not None and abs(ff - float(onp.sum(u * Hv_true))) > tol * scale * (1 + float(onp.sum(onp.abs(u)))):
                problems.append("fwd-over-fwd: <u, H v> = %.10g, true %.10g" % (ff, float(onp.sum(u * Hv_true))))
            # symmetry of the Hessian:  <u, H v> = <v, H u>
            for qn in ("rev-over-rev", "fwd-over-rev", "rev-over-fwd"):
                if qn in got and got[qn].shape == Hv_true.shape:
                    try:
                        hu = onp.asarray({"rev-over-rev": lambda: grad(lambda z: anp.sum(grad(s_ag)(z) * u))(z0),
                                          "fwd-over-rev": lambda: make_jvp(grad(s_ag))(z0)(u)[1],
                                          "rev-over-fwd": lambda: grad(lambda z: make_jvp(s_ag)(z)(u)[1])(z0)}[qn](), float)
                    except Exception:
                        continue
                    a, b = float(onp.sum(u * got[qn])), float(onp.sum(v * hu))
                    if abs(a - b) > 1e-8 * (1 + abs(a) + abs(b)):
                        problems.append("%s: Hessian not symmetric: <u, H v> = %.10g but <v, H u> = %.10g" % (qn, a, b))
                    break
            if problems:
                out["bad"].append({"primitive": c.prim, "configuration": c.tag, "scalarisation": sname,
                                   "what": "; ".join(problems[:3]), "z0": z0.tolist(), "v": v.tolist(),
                                   "site": {"primitive": c.prim, "kind": "second-order", "configuration": c.tag}})
                dist(sname + ":WRONG")
    # ---- programs (not single primitives): values used whole and through indexing, one cotangent handed to two parents,
    #      summands in every order - reverse-over-reverse and forward-over-reverse against forward-over-forward ----
    import itertools as _it
    xp = onp.array([0.3, -0.7, 1.1, 0.4])
    vp = onp.array([1.0, -2.0, 0.5, 2.0])
    pterm_fs = [lambda u, v_: u[0] * v_[1], lambda u, v_: anp.sum(anp.exp(u + v_)), lambda u, v_: anp.sum((u + v_) * (u + v_)),
                lambda u, v_: anp.sum(anp.sin(u[0:2]) * v_[1:3]), lambda u, v_: u[3] * u[3] * v_[3], lambda u, v_: anp.sum(u[::-1] * v_)]

    def run_terms(x, perm):          # u and v are SHARED by the summands, which are built (and so differentiated) in the order given
        u, v_ = anp.sin(x), anp.cos(2.0 * x)
        tot = 0.0
        for i in perm:
            tot = tot + pterm_fs[i](u, v_)
        return tot
    perms = [p_ for k_ in (2, 3) for p_ in _it.permutations(range(6), k_)]
    perms = perms[:: (3 if cfg.get("tier") != "thorough" else 1)] + list(_it.permutations(range(6)))[:: 720 // (12 if cfg.get("tier") != "thorough" else 60)]
    for perm in perms:
        fprog = lambda x, perm=perm: run_terms(x, perm)   # noqa: E731
        out["n"] += 1
        out["keys"].append("program-second-order|%s" % (perm,))
        dist("program:second-order")
        try:
            hff = onp.array([float(make_jvp(lambda z: make_jvp(fprog)(z)(vp)[1])(xp)(e_)[1]) for e_ in onp.eye(4)])
            hrr = onp.asarray(grad(lambda z: anp.sum(grad(fprog)(z) * vp))(xp))
            hfr = onp.asarray(make_jvp(grad(fprog))(xp)(vp)[1])
            for qn, hv in (("rev-over-rev", hrr), ("fwd-over-rev", hfr)):
                if not onp.allclose(hv, hff, rtol=1e-10, atol=1e-12):
                    out["bad"].append({"primitive": "program", "configuration": "summands in order %s" % (perm,), "sequence": qn,
                                       "what": "H v by %s is %s, forward-over-forward gives %s" % (qn, hv.tolist(), hff.tolist()),
                                       "site": {"primitive": "program", "kind": "second-order", "configuration": str(perm)}})
                    break
        except Exception as ex:
            out["bad"].append({"primitive": "program", "configuration": str(perm), "what": "raised %r" % (ex,), "site": {"primitive": "program", "kind": "second-order", "configuration": str(perm)}})
    # ---- library wrappers that re-enter differentiation inside a rule (checkpoint, misc.fixed_point): their derivatives
    #      can be differentiated again ----
    from autograd import checkpoint, hessian as _hess, make_hvp as _mhvp, jacobian as _jac
    from autograd.misc.fixed_points import fixed_point
    zs = onp.array([0.7, -0.4, 1.2])
    base_fs = {"cubic": lambda z: anp.sum(z * z * z) + anp.sum(z) ** 2, "sin-dot": lambda z: anp.sum(anp.sin(z) * z[::-1]),
               "tanh-norm": lambda z: anp.tanh(anp.sum(z * z))}
    for fname, fb in base_fs.items():
        out["n"] += 1
        out["keys"].append("checkpoint-second-order|" + fname)
        dist("checkpoint:second-order")
        try:
            cf = checkpoint(fb)
            Ht = onp.asarray(_hess(fb)(zs))
            got2 = {"hessian": onp.asarray(_hess(cf)(zs)), "grad of grad": onp.array([onp.asarray(grad(lambda z, i=i: grad(cf)(z)[i])(zs)) for i in range(3)]),
                    "make_hvp": onp.asarray(_mhvp(cf)(zs)[0](onp.ones(3))), "composed": onp.asarray(_hess(lambda z: cf(z * 2.0) * 0.25)(zs))}
            want2 = {"hessian": Ht, "grad of grad": Ht, "make_hvp": Ht @ onp.ones(3), "composed": onp.asarray(_hess(lambda z: fb(z * 2.0) * 0.25)(zs))}
            for qn in got2:
                if got2[qn].dtype == object or not onp.allclose(got2[qn], want2[qn], atol=1e-10):
                    out["bad"].append({"primitive": "checkpoint", "configuration": fname, "sequence": qn,
                                       "what": "second derivative through checkpoint (%s): got %s, the unwrapped function gives %s" % (qn, got2[qn].tolist(), want2[qn].tolist()),
                                       "site": {"primitive": "checkpoint", "kind": "second-order", "configuration": fname}})
                    break
        except Exception as ex:
            out["bad"].append({"primitive": "checkpoint", "configuration": fname, "what": "second derivative through checkpoint raised %r" % (ex,),
                               "site": {"primitive": "checkpoint", "kind": "second-order", "configuration": fname}})
    out["n"] += 1
    out["keys"].append("fixed_point-second-order")
    dist("fixed_point:second-order")
    try:
        def FP(a_):
            f_ = lambda a__: lambda x_: 0.5 * anp.cos(a__ * x_) + 0.1 * a__     # noqa: E731
            dist_ = lambda x_, y_: anp.max(anp.abs(x_ - y_))                     # noqa: E731
            return anp.sum(fixed_point(f_, a_, anp.zeros(2) + 0.3, dist_, 1e-13) ** 2)
        a0 = onp.array([0.7, 1.3])
        g1 = grad(FP)
        e5 = 1e-5
        Hn = onp.stack([(onp.asarray(g1(a0 + e5 * e_)) - onp.asarray(g1(a0 - e5 * e_))) / (2 * e5) for e_ in onp.eye(2)], 1)
        Hj = _jac(g1)(a0)
        if getattr(Hj, "dtype", None) == object or not onp.allclose(onp.asarray(Hj, float), Hn, atol=1e-5):
            out["bad"].append({"primitive": "misc.fixed_point", "configuration": "cos contraction", "what": "second derivative through fixed_point: %r, finite differences of the gradient give %s" % (Hj, Hn.tolist()),
                               "site": {"primitive": "misc.fixed_point", "kind": "second-order", "configuration": "cos contraction"}})
    except Exception as ex:
        out["bad"].append({"primitive": "misc.fixed_point", "configuration": "cos contraction", "what": "second derivative through fixed_point raised %r" % (ex,),
                           "site": {"primitive": "misc.fixed_point", "kind": "second-order", "configuration": "cos contraction"}})
    out["keys"] = sorted(set(out["keys"]))
    print(json.dumps(out, default=str))


if __name__ == "__main__":
    main()
