"""Implementation side of C11: index expressions from a grammar on ranks 0..4
(valid stream + malformed stream), and programs mixing sparse (indexed) and
dense uses of one array in every order."""
import itertools
import json
import random
import sys
import warnings

import numpy as onp
import autograd.numpy as anp
from autograd import make_vjp, make_jvp, grad

warnings.simplefilter("ignore")


def gen_index(rng, shape, malformed=False):
    nd = len(shape)
    kinds = []
    parts = []
    used = 0
    style = rng.random()
    if nd == 0:
        return rng.choice([(), Ellipsis, None, (None, Ellipsis)]), ["rank0"]
    if not malformed and style > 0.88:
        # every element selected exactly once: full slices in either direction, inserted axes, an Ellipsis run
        # (the result has the array's size, but is a permutation of it whenever a slice runs backwards)
        for d in range(nd):
            parts.append(rng.choice([slice(None), slice(None, None, -1), slice(None, None, 1), slice(-1, None, -1),
                                     slice(None, None, -1), slice(0, None)]))
        if rng.random() < 0.35:
            a = rng.randint(0, nd)
            b = rng.randint(a, nd)
            if all(p == slice(None) or p == slice(0, None) for p in parts[a:b]):
                parts[a:b] = [Ellipsis]
        for _ in range(rng.randint(0, 2)):
            parts.insert(rng.randint(0, len(parts)), None)
        return tuple(parts), ["full-cover"] + (["newaxis"] if None in parts else []) + \
            (["reversed"] if any(isinstance(p, slice) and p.step == -1 for p in parts) else [])
    if style < 0.12:
        # boolean mask over the leading k dims
        k = rng.randint(1, nd)
        mask = onp.array([rng.random() < 0.5 for _ in range(int(onp.prod(shape[:k])))]).reshape(shape[:k])
        if rng.random() < 0.4:
            return mask.tolist(), ["bool-mask", "bool-list"]       # a (nested) Python list of booleans is a mask too
        return mask, ["bool-mask"]
    if not malformed and 0.12 <= style < 0.22:
        # one index array on the leading axis whose entries alias: literal repeats, or literally DISTINCT entries that
        # address one position (k and k - dim); spelled as list, ndarray or tuple, at top level or inside the index tuple
        dim = shape[0]
        k = rng.randrange(dim)
        vals = [k, k - dim] if rng.random() < 0.6 else [k, k]
        vals += rng.sample([v for v in range(-dim, dim) if v not in (k, k - dim)], min(rng.randint(0, 2), 2 * dim - 2))
        rng.shuffle(vals)
        spell = rng.choice(["list", "array", "tuple-in-tuple", "list-in-tuple", "array-in-tuple", "array-int32"])
        arr = {"list": vals, "array": onp.array(vals), "array-int32": onp.array(vals, dtype=onp.int32)}.get(spell)
        if arr is None:
            inner = tuple(vals) if spell == "tuple-in-tuple" else vals if spell == "list-in-tuple" else onp.array(vals)
            rest = [rng.choice([slice(None), slice(None, None, -1)]) for _ in range(rng.randint(0, nd - 1))]
            arr = tuple([inner] + rest)
        return arr, ["int-array-repeats", "alias-" + ("distinct-literals" if len(set(vals)) == len(vals) else "literal-repeat"),
                     "spelled-" + spell]
    if not malformed and 0.22 <= style < 0.30 and nd >= 2:
        # a Python list of booleans (a mask, not positions) as ONE component of the index tuple, next to ints / slices /
        # integer lists; all-True and all-False masks included
        ax = rng.randrange(nd)
        parts = []
        for d_ in range(nd):
            if d_ == ax:
                kindm = rng.random()
                m = [True] * shape[d_] if kindm < 0.25 else [False] * shape[d_] if kindm < 0.35 else [rng.random() < 0.5 for _ in range(shape[d_])]
                parts.append(m if rng.random() < 0.7 else onp.array(m))
            else:
                parts.append(rng.choice([slice(None), rng.randrange(shape[d_]), slice(None, None, -1), slice(0, 1)]))
        return tuple(parts), ["bool-list-in-tuple"]
    if not malformed and 0.30 <= style < 0.36 and nd >= 2:
        # one integer array (or list) per axis: pointwise selection x[rows, cols, ...], with repeats and negative entries
        ln = rng.randint(1, 4)
        parts = [[rng.randint(-d_, d_ - 1) for _ in range(ln)] for d_ in shape]
        parts = [p if rng.random() < 0.5 else onp.array(p) for p in parts]
        return tuple(parts), ["pointwise-arrays", "int-array-repeats"]
    want_adv = style < 0.45
    n_adv = 0
    while used < nd:
        r = rng.random()
        dim = shape[used]
        if r < 0.08 and "ellipsis" not in kinds:
            parts.append(Ellipsis)
            kinds.append("ellipsis")
            skip = rng.randint(0, nd - used)
            used += skip
            continue
        if r < 0.16:
            parts.append(None)
            kinds.append("newaxis")
            continue
        if r < 0.40:
            v = rng.randint(-dim, dim - 1) if not malformed else rng.choice([dim, -dim - 1, dim + 3])
            parts.append(v)
            kinds.append("int" if v >= 0 else "neg-int")
        elif r < 0.75 or not want_adv:
            start = rng.choice([None, None] + list(range(-dim - 1, dim + 2)))
            stop = rng.choice([None, None] + list(range(-dim - 1, dim + 2)))
            step = rng.choice([None, 1, 2, -1, -2, 3])
            parts.append(slice(start, stop, step))
            kinds.append("slice" if step in (None, 1) else "step-slice")
        else:
            ln = rng.randint(1, 3)
            if n_adv and rng.random() < 0.7:
                ln = [len(p) for p in parts if isinstance(p, (list, onp.ndarray))][0]
            vals = [rng.randint(-dim, dim - 1) for _ in range(ln)]
            if malformed:
                vals[0] = dim
            parts.append(vals if rng.random() < 0.5 else onp.array(vals))
            kinds.append("int-array-repeats" if len(set(v % dim for v in vals)) < len(vals) else "int-array")
            n_adv += 1
        used += 1
        if rng.random() < 0.25:
            break
    if malformed and rng.random() < 0.3:
        parts = parts + [0] * (nd + 1)
    idx = tuple(parts)
    if len(idx) == 1 and rng.random() < 0.5:
        idx = idx[0]
    return idx, kinds


def enc_idx(idx):
    def e(p):
        if p is Ellipsis:
            return "..."
        if p is None:
            return "newaxis"
        if isinstance(p, slice):
            return "%s:%s:%s" % (p.start, p.stop, p.step)
        if isinstance(p, onp.ndarray):
            return ("array" + str(p.tolist())).replace(" ", "")
        return str(p).replace(" ", "")
    return "[" + ", ".join(e(p) for p in idx) + "]" if isinstance(idx, tuple) else e(idx)


def main():
    cfg = json.load(sys.stdin)
    rng = random.Random(cfg["seed"])
    out = {"cases": [], "progs": [], "malformed": {"n": 0, "both_raise": 0, "bad": []}, "dist": {}}

    def dist(k):
        out["dist"][k] = out["dist"].get(k, 0) + 1

    shapes = [(), (4,), (3, 2), (2, 3, 2), (2, 1, 3), (2, 2, 1, 3), (5,), (1, 4)]
    tries = 0
    while len(out["cases"]) < cfg["n"] and tries < cfg["n"] * 20:
        tries += 1
        shape = rng.choice(shapes)
        n = int(onp.prod(shape)) if shape else 1
        idx, kinds = gen_index(rng, shape)
        lab = onp.arange(n).reshape(shape)
        try:
            sel = lab[idx]
        except Exception:
            continue
        sigma = [int(t) for t in onp.asarray(sel).ravel()]
        A = onp.array([float(rng.randint(-3, 3)) for _ in range(n)]).reshape(shape)
        g = onp.array([float(rng.randint(-3, 3)) for _ in range(len(sigma))]).reshape(onp.shape(sel))
        v = onp.array([float(rng.randint(-3, 3)) for _ in range(n)]).reshape(shape)
        parts_ = idx if isinstance(idx, tuple) else (idx,)
        basic = None
        if all(p_ is Ellipsis or p_ is None or isinstance(p_, slice) or (isinstance(p_, int) and not isinstance(p_, bool)) for p_ in parts_) \
                and sum(1 for p_ in parts_ if p_ is Ellipsis) <= 1:
            basic = [["ell"] if p_ is Ellipsis else ["new"] if p_ is None else ["int", int(p_)] if isinstance(p_, int)
                     else ["slice", p_.start, p_.stop, 1 if p_.step is None else p_.step] for p_ in parts_]
            dist("basic-index-expression")
        case = {"n": n, "shape": list(shape), "index": enc_idx(idx), "sigma": sigma, "basic": basic,
                "g": [int(t) for t in g.ravel()], "v": [int(t) for t in v.ravel()]}
        try:
            vj = make_vjp(lambda a: a[idx])(A)[0](g if onp.shape(sel) else float(g))
            jv = make_jvp(lambda a: a[idx])(A)(v)[1]
            exp = onp.zeros(shape)
            onp.add.at(exp, idx, g)
            ok = onp.shape(vj) == shape and bool(onp.all(onp.asarray(vj) == exp)) and bool(onp.all(onp.asarray(jv) == v[idx])) \
                and onp.shape(jv) == onp.shape(sel)
            case.update({"vjp": [int(t) for t in onp.asarray(vj).ravel()], "jvp": [int(t) for t in onp.asarray(jv).ravel()],
                         "ok": bool(ok)})
        except Exception as ex:
            case.update({"vjp": [], "jvp": [], "ok": False, "error": repr(ex)})
        for k in set(kinds):
            dist("index:" + k)
        dist("rank=%d" % len(shape))
        if len(set(sigma)) < len(sigma):
            dist("repeated-positions")
        out["cases"].append(case)
    # malformed stream: NumPy rejects the expression; autograd must raise too (not return something)
    for _ in range(cfg["n_malformed"]):
        shape = rng.choice(shapes[1:])
        idx, _ = gen_index(rng, shape, malformed=True)
        A = onp.zeros(shape)
        try:
            A[idx]
            continue
        except Exception:
            pass
        out["malformed"]["n"] += 1
        try:
            make_vjp(lambda a: a[idx])(A)
            out["malformed"]["bad"].append({"shape": list(shape), "index": enc_idx(idx),
                                            "site": {"oracle": "malformed-index-accepted"}})
        except Exception:
            out["malformed"]["both_raise"] += 1
    # programs: k sparse and m dense uses of one array, in every order
    combos = []
    for total in range(1, 5):
        for kinds in itertools.product("sd", repeat=total):
            combos.append(kinds)
    while len(combos) < cfg["n_progs"]:
        combos.append(tuple(rng.choice("sd") for _ in range(rng.randint(5, 6))))
    for kinds in combos[:cfg["n_progs"]]:
        shape = rng.choice(shapes[0:6])      # rank 0 included
        n = int(onp.prod(shape)) if shape else 1
        lab = onp.arange(n).reshape(shape)
        uses, terms = [], []
        for kd in kinds:
            if kd == "d":
                w = onp.array([float(rng.randint(-2, 2)) for _ in range(n)]).reshape(shape)
                uses.append({"dense": [int(t) for t in w.ravel()]})
                terms.append(("d", w))
            else:
                while True:
                    idx, _ = gen_index(rng, shape)
                    try:
                        sel = lab[idx]
                        break
                    except Exception:
                        continue
                w = onp.array([float(rng.randint(-2, 2)) for _ in range(onp.size(sel))]).reshape(onp.shape(sel))
                uses.append({"sigma": [int(t) for t in onp.asarray(sel).ravel()], "w": [int(t) for t in onp.asarray(w).ravel()]})
                terms.append(("s", idx, w))

        viaT = [rng.random() < 0.5 for _ in terms]

        def f(a, viaT=viaT):
            tot = 0.0
            for t, vt in zip(terms, viaT):
                if t[0] == "d":
                    # (half of the dense uses go through a transpose: their cotangent reaches `a` as a Fortran-ordered view)
                    tot = tot + (anp.sum(t[1].T * a.T) if vt else anp.sum(t[1] * a))
                else:
                    tot = tot + anp.sum(t[2] * a[t[1]])
            return tot
        A = onp.array([float(rng.randint(-3, 3)) for _ in range(n)]).reshape(shape)
        A.setflags(write=False)
        exp = onp.zeros(shape)
        for t in terms:
            if t[0] == "d":
                exp = onp.array(exp + t[1])
            else:
                onp.add.at(exp, t[1], t[2])
        try:
            gr = grad(f)(A)
            ok = onp.shape(gr) == shape and bool(onp.all(gr == exp))
            out["progs"].append({"n": n, "uses": uses, "grad": [int(t) for t in onp.asarray(gr).ravel()], "ok": bool(ok),
                                 "order": "".join(kinds)})
        except Exception as ex:
            out["progs"].append({"n": n, "uses": uses, "grad": [], "ok": False, "error": repr(ex), "order": "".join(kinds)})
        dist("program:k+m=%d" % len(kinds))
    # programs of a second kind: full-selection indexing (x[:], x[...], x[()]) mixed with ordinary uses and
    # combined by +, so cotangents flow through identity rules and may be shared between contributions
    for it in range(cfg["n_progs"]):
        shape = rng.choice([(3,), (2, 2), (2, 1, 2)])
        n = int(onp.prod(shape))
        A = onp.array([float(rng.randint(-3, 3)) for _ in range(n)]).reshape(shape)
        A.setflags(write=False)
        W = onp.array([float(rng.randint(1, 3)) for _ in range(n)]).reshape(shape)
        kinds = [rng.choice(["full-slice", "ellipsis", "dense", "scaled", "square", "full-slice", "empty-tuple", "rev-rev",
                             "zero", "zero", "gather", "gather", "masked-off"])
                 for _ in range(rng.randint(2, 6))]
        gidx = tuple(onp.array([rng.randrange(d) for _ in range(n)]).reshape(shape) for d in shape)   # same shape, repeats
        left = rng.random() < 0.5

        def f(a, kinds=kinds, W=W, left=left, gidx=gidx):
            ts = []
            for kd in kinds:
                if kd == "zero":                      # a consumer whose cotangent contribution is zero in every entry
                    ts.append(a * 0.0)
                elif kd == "masked-off":
                    ts.append(anp.where(onp.zeros(shape, bool), a, 0.0))
                elif kd == "gather":                  # an indexed (sparse) contribution of the array's own shape
                    ts.append(a[gidx])
                elif kd == "full-slice":
                    ts.append(a[:])
                elif kd == "ellipsis":
                    ts.append(a[...])
                elif kd == "empty-tuple":
                    ts.append(a[()])
                elif kd == "rev-rev":
                    ts.append(a[::-1][::-1])
                elif kd == "dense":
                    ts.append(a)
                elif kd == "scaled":
                    ts.append(a * W)
                else:
                    ts.append(a * a)
            acc = ts[0]
            for t in ts[1:]:
                acc = (acc + t) if left else (t + acc)
            return anp.sum(acc)
        exp = onp.zeros(shape)
        for kd in kinds:
            if kd == "gather":
                onp.add.at(exp, gidx, onp.ones(shape))
            elif kd not in ("zero", "masked-off"):
                exp = exp + (W if kd == "scaled" else 2 * A if kd == "square" else onp.ones(shape))
        try:
            gr = grad(f)(A)
            ok = onp.shape(gr) == shape and bool(onp.all(gr == exp))
            # represent it to the model as dense uses with these weights (identity selection)
            lab2 = onp.arange(n).reshape(shape)
            uses = [{"dense": [int(t) for t in (W if kd == "scaled" else 2 * A if kd == "square" else onp.ones(shape)).ravel()]}
                    if kd in ("dense", "scaled", "square") else
                    {"dense": [0] * n} if kd in ("zero", "masked-off") else
                    {"sigma": [int(t) for t in lab2[gidx].ravel()], "w": [1] * n} if kd == "gather" else
                    {"sigma": list(range(n)), "w": [1] * n} for kd in kinds]
            out["progs"].append({"n": n, "uses": uses, "grad": [int(t) for t in onp.asarray(gr).ravel()], "ok": bool(ok),
                                 "order": "+".join(kinds)})
        except Exception as ex:
            out["progs"].append({"n": n, "uses": [], "grad": [], "ok": False, "error": repr(ex), "order": "+".join(kinds)})
        dist("program:full-selection-mix")
    # 0-d values (real and complex) used densely two or more times and through x[()] / x[...] / x[None], in every order
    import itertools as _it0
    out.setdefault("nested", {"n": 0, "bad": []})
    for zc in (onp.array(1.5), onp.array(1.5 - 0.5j), 2.0 + 1.0j):
        uses0 = [("dense", lambda z: z * (2.0 + (1j if onp.iscomplexobj(zc) else 0.0))), ("dense", lambda z: z * 3.0), ("index ()", lambda z: z[()] * 5.0),
                 ("index ...", lambda z: z[...] * 7.0), ("index None", lambda z: z[None][0] * 11.0)] if not isinstance(zc, complex) else \
                [("dense", lambda z: z * (2.0 + 1j)), ("dense", lambda z: z * 3.0), ("dense", lambda z: z * 1j)]
        for perm in [p_ for k_ in range(2, len(uses0) + 1) for p_ in _it0.permutations(range(len(uses0)), k_)]:
            out["nested"]["n"] += 1
            dist("program:zero-d-mix")

            def f0(z, perm=perm):
                tot = 0.0
                for i_ in perm:
                    tot = tot + uses0[i_][1](z)
                return anp.real(tot * (1.0 - 2.0j)) if onp.iscomplexobj(zc) else tot
            try:
                g0 = grad(f0)(zc)
                coef = sum({0: (2.0 + (1j if onp.iscomplexobj(zc) else 0.0)), 1: 3.0, 2: (5.0 if not isinstance(zc, complex) else 1j), 3: 7.0, 4: 11.0}[i_] for i_ in perm)
                want = (coef * (1.0 - 2.0j)) if onp.iscomplexobj(zc) else coef
                want = onp.conj(want) if False else want
                ok = onp.shape(g0) == () and abs(complex(g0) - complex(want)) < 1e-12
                if not ok:
                    out["nested"]["bad"].append({"program": "0-d value %r, uses in order %s" % (zc, [uses0[i_][0] for i_ in perm]),
                                                 "problems": ["gradient %r, expected %r" % (g0, want)], "ok": False})
            except Exception as ex:
                out["nested"]["bad"].append({"program": "0-d value %r, uses in order %s" % (zc, [uses0[i_][0] for i_ in perm]), "problems": ["raised %r" % (ex,)], "ok": False})
    # programs of a third kind: the same mixtures inside a NESTED differentiation, with cotangents that depend on the
    # outer variable (every term is squared) and values that share one cotangent object (s = y + w): the gradient seen
    # under an outer trace, and the second derivative, against forward mode (which accumulates nothing)
    from autograd import make_jvp as _mj
    out.setdefault("nested", {"n": 0, "bad": []})
    for it in range(cfg["n_progs"]):
        n = rng.choice([3, 4])
        lab = onp.arange(n)
        plan = []
        for _ in range(rng.randint(2, 5)):
            src = rng.choice(["y", "w", "s", "a"])
            if rng.random() < 0.5:
                plan.append((src, None, onp.array([float(rng.randint(-2, 2)) for _ in range(n)])))
            else:
                idx = rng.choice([slice(0, 2), slice(None, None, -1), [0, 0, n - 1], onp.array([1, -1]), 1, -2, slice(1, None, 2),
                                  onp.array([True] + [False] * (n - 2) + [True])])
                sel = lab[idx]
                plan.append((src, idx, onp.array([float(rng.randint(-2, 2)) for _ in range(onp.size(sel))]).reshape(onp.shape(sel))))
        rng.shuffle(plan)
        pos_ss = rng.randint(0, len(plan))

        def fq(a, plan=plan, pos_ss=pos_ss):
            y = a * 2.0
            w = a * 3.0
            s_ = y + w
            env = {"y": y, "w": w, "s": s_, "a": a}
            tot = 0.0
            for k_, (src, idx, wt) in enumerate(plan):
                if k_ == pos_ss:
                    tot = tot + anp.sum(s_ * s_)        # the shared dense cotangent, at a random place in the order
                v = env[src] if idx is None else env[src][idx]
                tot = tot + anp.sum(wt * v) ** 2
            if pos_ss >= len(plan):
                tot = tot + anp.sum(s_ * s_)
            return tot
        x0 = onp.array([float(rng.randint(-2, 2)) for _ in range(n)])
        vdir = onp.array([float(rng.randint(-2, 2)) for _ in range(n)])
        out["nested"]["n"] += 1
        dist("program:nested-mix")
        desc = "plan=%s x=%s" % ([(p[0], str(p[1])) for p in plan], x0.tolist())
        try:
            g_plain = onp.asarray(grad(fq)(x0))
            g_fwd = onp.array([float(_mj(fq)(x0)(e)[1]) for e in onp.eye(n)])
            seen = []

            def outer(x):
                g = grad(fq)(x)
                seen.append(onp.array(getattr(g, "_value", g)))
                return anp.sum(g * vdir)
            hv_rr = onp.asarray(grad(outer)(x0))
            hv_fr = onp.asarray(_mj(grad(fq))(x0)(vdir)[1])
            hv_ff = onp.array([float(_mj(lambda z: _mj(fq)(z)(vdir)[1])(x0)(e)[1]) for e in onp.eye(n)])
            probs = []
            if not onp.all(g_plain == g_fwd):
                probs.append("gradient %s, forward mode gives %s" % (g_plain.tolist(), g_fwd.tolist()))
            if not onp.all(onp.asarray(seen[0]) == g_fwd):
                probs.append("gradient computed under an outer trace is %s, on its own %s" % (onp.asarray(seen[0]).tolist(), g_fwd.tolist()))
            if not onp.all(hv_rr == hv_ff):
                probs.append("reverse-over-reverse H v = %s, forward-over-forward %s" % (hv_rr.tolist(), hv_ff.tolist()))
            if not onp.all(hv_fr == hv_ff):
                probs.append("forward-over-reverse H v = %s, forward-over-forward %s" % (hv_fr.tolist(), hv_ff.tolist()))
            if probs:
                out["nested"]["bad"].append({"program": desc, "problems": probs, "ok": False})
        except Exception as ex:
            out["nested"]["bad"].append({"program": desc, "problems": ["raised %r" % (ex,)], "ok": False})
    # ---- (E) one index OBJECT (a list of positions, a list mask, an index array) used by several differentiations and
    #      refilled in place between them: each gradient goes to the positions the object holds in THAT evaluation ----
    for hi in range(max(4, cfg["n"] // 40)):
        n = rng.randint(4, 7)
        wts = onp.array([float(3 ** k_) for k_ in range(3)])
        kind = ("list", "array", "mask", "tuple-of-lists")[hi % 4]
        steps = [[rng.randrange(n) for _ in range(3)] for _ in range(3)]
        if kind == "list":
            obj = list(steps[0])
        elif kind == "array":
            obj = onp.array(steps[0])
        elif kind == "mask":
            steps = [sorted(rng.sample(range(n), 3)) for _ in range(3)]
            obj = [i_ in steps[0] for i_ in range(n)]
        else:
            obj = list(steps[0])
        xh = onp.arange(float(n)) + 1.0
        fh = (lambda x: anp.sum(wts * x[(obj,)])) if kind == "tuple-of-lists" else (lambda x: anp.sum(wts * x[obj]))
        desc = "%s index object refilled in place, n=%d, steps=%s" % (kind, n, steps)
        out["nested"]["n"] += 1
        dist("history:index-object-reused")
        try:
            probs = []
            for st_i, st in enumerate(steps):
                if kind == "mask":
                    obj[:] = [i_ in st for i_ in range(n)]
                elif kind == "array":
                    obj[...] = st
                else:
                    obj[:] = st
                want = onp.zeros(n)
                for w_, p_ in zip(wts, st):
                    want[p_] += w_
                got = onp.asarray(grad(fh)(xh))
                gotf = onp.array([float(_mj(fh)(xh)(e)[1]) for e in onp.eye(n)])
                if not (onp.all(got == want) and onp.all(gotf == want)):
                    probs.append("evaluation %d with positions %s: gradient %s / forward %s, expected %s" % (st_i + 1, st, got.tolist(), gotf.tolist(), want.tolist()))
            if probs:
                out["nested"]["bad"].append({"program": desc, "problems": probs, "ok": False})
        except Exception as ex:
            out["nested"]["bad"].append({"program": desc, "problems": ["raised %r" % (ex,)], "ok": False})
    print(json.dumps(out))


if __name__ == "__main__":
    main()
