#!/bin/sh
# Try the seed_1 / seed_2 changes of a batch of sub-agent worktrees against their own property's check, W workers in
# parallel, each on its own scratch copy of /verif and its own scratch worktree of /repo (nothing is applied to /repo):
#   harness/try_batch_par.sh <prefix, e.g. /tmp/wt14_> <W> <ids...>
# per change: does it apply, does the suite still pass with it, does the demo fail with it and pass without it, and does
# the check report a violation.
pre="$1"; W="$2"; shift 2
items=""
for id in "$@"; do for i in 1 2; do items="$items $id:$i"; done; done
items=$(echo $items | tr " " "\n")
for k in $(seq 1 $W); do
  rm -rf /tmp/sr_$k; mkdir -p /tmp/sr_$k
  rsync -a --exclude .git --exclude build/cases --exclude replays /verif/ /tmp/sr_$k/verif/
  git -C /repo worktree add --detach /tmp/sr_$k/repo HEAD -f >/dev/null 2>&1
done
worker() {
  k=$1; shift
  R=/tmp/sr_$k/repo
  for it in "$@"; do
    id=${it%%:*}; i=${it##*:}; d=${pre}${id}/seed_$i
    [ -f "$d/patch.diff" ] || { echo "$id seed_$i: missing"; continue; }
    git -C $R apply "$d/patch.diff" 2>/dev/null || { echo "$id seed_$i: PATCH DOES NOT APPLY"; continue; }
    t=$(cd $R && PYTHONPATH=$R timeout 900 /venv/bin/python -m pytest -q -p no:cacheprovider 2>&1 | grep -c "496 passed")
    git -C $R checkout -q -- coverage.xml 2>/dev/null
    dw=$(cd $R && PYTHONPATH=$R timeout 300 /venv/bin/python "$d/demo.py" >/dev/null 2>&1; echo $?)
    v=$(cd /tmp/sr_$k/verif && VERIF_REPO=$R timeout 1500 ./check "$id" 2>&1 | grep -c "^VIOLATION property=$id")
    git -C $R checkout -q -- .
    dwo=$(cd $R && PYTHONPATH=$R timeout 300 /venv/bin/python "$d/demo.py" >/dev/null 2>&1; echo $?)
    echo "$id seed_$i: tests_ok=$t demo_with=$dw demo_without=$dwo violations=$v"
  done
}
for k in $(seq 1 $W); do
  mine=$(echo "$items" | awk -v k=$k -v w=$W 'NR % w == k % w')
  worker $k $mine &
done
wait
for k in $(seq 1 $W); do git -C /repo worktree remove --force /tmp/sr_$k/repo 2>/dev/null; rm -rf /tmp/sr_$k; done
git -C /repo worktree prune
