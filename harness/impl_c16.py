"""Implementation side of C16: every differential operator on random degree-2
polynomial maps Z^in -> Z^out (ranks 0..3 on both sides), plus the argnum
algebra and pass-through of extra positional / keyword arguments."""
import json
import random
import sys
import warnings

import numpy as onp
import autograd.numpy as anp
from autograd.differential_operators import (
    grad, elementwise_grad, deriv, jacobian, hessian, make_hvp, hessian_tensor_product,
    tensor_jacobian_product, make_jvp_reversemode, make_jvp, make_ggnvp, value_and_grad,
    grad_and_aux, make_vjp, grad_named)
from autograd.tracer import isbox

warnings.simplefilter("ignore")


def rshape(rng, maxsize=4):
    while True:
        sh = tuple(rng.choice([1, 2, 3]) for _ in range(rng.randint(0, 3)))
        if int(onp.prod(sh)) <= maxsize:
            return sh


def mkpoly(rng, m, n):
    c = [rng.randint(-2, 2) for _ in range(m)]
    A = [[rng.randint(-2, 2) for _ in range(n)] for _ in range(m)]
    B = [[[rng.choice([0, 0, 1, -1, 2]) for _ in range(n)] for _ in range(n)] for _ in range(m)]
    return c, A, B


def mkfun(c, A, B, in_shape, out_shape):
    c_, A_, B_ = onp.array(c, float), onp.array(A, float), onp.array(B, float)
    m, n = len(c), len(A[0]) if A else 0

    def f(x):
        xf = anp.ravel(x)
        y = c_ + anp.dot(A_, xf) + anp.dot(anp.dot(B_, xf), xf)
        return anp.reshape(y, out_shape) if out_shape != () else y[0]
    return f


def flat(v):
    a = onp.asarray(v)
    return [int(t) for t in a.ravel().tolist()], list(a.shape), bool(onp.all(a == onp.round(a)))


def main():
    cfg = json.load(sys.stdin)
    rng = random.Random(cfg["seed"])
    out = {"cases": [], "oracle_bad": [], "oracle_n": 0, "dist": {}}

    def dist(k):
        out["dist"][k] = out["dist"].get(k, 0) + 1

    for it in range(cfg["n"]):
        in_shape, out_shape = rshape(rng), rshape(rng)
        n, m = int(onp.prod(in_shape)) if in_shape else 1, int(onp.prod(out_shape)) if out_shape else 1
        scalar_out = rng.random() < 0.5
        if scalar_out:
            out_shape, m = (), 1
        c, A, B = mkpoly(rng, m, n)
        f = mkfun(c, A, B, in_shape, out_shape)
        xv = [rng.randint(-2, 2) for _ in range(n)]
        x = onp.array(xv, float).reshape(in_shape) if in_shape != () else float(xv[0])
        ops = ["jac", "egrad", "value", "jvp", "jvprev", "tjp", "ggn"]
        if m == 1 and out_shape == ():
            ops += ["grad", "hess", "hvp", "grad", "vag", "gaux"]
        if True:
            ops += ["deriv"]
        op = rng.choice(ops)
        v = [rng.randint(-2, 2) for _ in range(n)]
        vec = [rng.randint(-2, 2) for _ in range(m)]
        va = onp.array(v, float).reshape(in_shape) if in_shape != () else float(v[0])
        veca = onp.array(vec, float).reshape(out_shape) if out_shape != () else float(vec[0])
        case = {"m": m, "n": n, "c": c, "A": A, "B": B, "x": xv, "op": op, "v": v, "vec": vec,
                "in_shape": list(in_shape), "out_shape": list(out_shape)}
        try:
            want_shape = None
            if op == "jac":
                r = jacobian(f)(x)
                want_shape = list(out_shape) + list(in_shape)
            elif op == "grad":
                r = grad(f)(x)
                want_shape = list(in_shape)
            elif op == "egrad":
                r = elementwise_grad(f)(x)
                want_shape = list(in_shape)
            elif op == "deriv":
                r = deriv(f)(x)
                want_shape = list(out_shape)
            elif op == "hess":
                r = hessian(f)(x)
                want_shape = list(in_shape) + list(in_shape)
            elif op == "value":
                r = value_and_grad(lambda z: anp.sum(f(z)))(x)[0] if False else make_vjp(f)(x)[1]
                want_shape = list(out_shape)
            elif op == "hvp":
                r1 = make_hvp(f)(x)[0](va)
                r = hessian_tensor_product(f)(x, va)
                if not onp.all(onp.asarray(r1) == onp.asarray(r)):
                    raise AssertionError("make_hvp and hessian_tensor_product disagree")
                want_shape = list(in_shape)
            elif op == "tjp":
                r = tensor_jacobian_product(f)(x, veca)
                want_shape = list(in_shape)
            elif op == "jvp":
                val, r = make_jvp(f)(x)(va)
                want_shape = list(out_shape)
            elif op == "jvprev":
                r = make_jvp_reversemode(f)(x)(va)
                want_shape = list(out_shape)
            elif op == "ggn":
                fv = lambda z: anp.ravel(f(z)) if out_shape != () else anp.reshape(f(z), (1,))  # noqa: E731
                r = make_ggnvp(fv)(x)(va)
                want_shape = list(in_shape)
            elif op == "vag":
                val, r = value_and_grad(f)(x)
                if float(val) != float(f(x)) or isbox(val):
                    raise AssertionError("value_and_grad changed the primal value")
                case["op"] = "grad"
                want_shape = list(in_shape)
            elif op == "gaux":
                aux0 = {"k": [1.0, onp.array([2.0, 3.0])]}
                r, aux = grad_and_aux(lambda z: (f(z), aux0))(x)
                if not (set(aux) == {"k"} and aux["k"][0] == 1.0 and list(aux["k"][1]) == [2.0, 3.0]) or isbox(aux):
                    raise AssertionError("grad_and_aux changed the auxiliary value")
                case["op"] = "grad"
                want_shape = list(in_shape)
            fl, shp, exact = flat(r)
            if not exact:
                continue
            case.update({"impl": fl, "shape_ok": shp == want_shape and not isbox(r), "shape": shp, "want_shape": want_shape})
        except Exception as ex:
            case.update({"impl": [], "shape_ok": False, "error": repr(ex)})
        dist("op=" + case["op"])
        dist("in-rank=%d out-rank=%d" % (len(in_shape), len(out_shape)))
        out["cases"].append(case)

    # ---- argnum algebra: position / tuple / list / by name; extra args and kwargs pass through ----
    for it in range(cfg["n_oracle"]):
        sh = rshape(rng)
        n = int(onp.prod(sh)) if sh else 1
        a = onp.array([rng.randint(-2, 2) for _ in range(n)], float).reshape(sh)
        b = onp.array([rng.randint(-2, 2) for _ in range(n)], float).reshape(sh)
        s = float(rng.randint(1, 3))

        def fun(p, a_, q, b_, scale=1.0, **kw):
            return anp.sum(a_ * a_ * b_ * p) * scale + q * anp.sum(b_) + kw.get("extra", 0.0)
        p, q = float(rng.randint(1, 3)), float(rng.randint(-2, 2))
        out["oracle_n"] += 1
        dist("argnum-algebra")
        try:
            ga = grad(lambda z: fun(p, z, q, b, scale=s, extra=5.0))(a)
            gb = grad(lambda z: fun(p, a, q, z, scale=s, extra=5.0))(b)
            checks = [
                onp.all(grad(fun, 1)(p, a, q, b, scale=s, extra=5.0) == ga),
                onp.all(grad(fun, 3)(p, a, q, b, scale=s, extra=5.0) == gb),
                all(onp.all(u == w) for u, w in zip(grad(fun, (1, 3))(p, a, q, b, scale=s, extra=5.0), (ga, gb))),
                all(onp.all(u == w) for u, w in zip(grad(fun, [3, 1])(p, a, q, b, scale=s, extra=5.0), (gb, ga))),
                isinstance(grad(fun, (1, 3))(p, a, q, b, scale=s), tuple),
                onp.all(grad_named(fun, "b_")(p, a, q, b, scale=s, extra=5.0) == gb),
                onp.all(value_and_grad(fun, 1)(p, a, q, b, scale=s)[1] == ga),
                onp.all(jacobian(fun, 3)(p, a, q, b, scale=s) == gb),
                onp.all(elementwise_grad(fun, 1)(p, a, q, b, scale=s) == ga),
                float(grad(fun, 0)(p, a, q, b, scale=s)) == float(anp.sum(a * a * b) * s),
                float(grad(fun, 2)(p, a, q, b)) == float(onp.sum(b)),
                onp.all(make_vjp(fun, 1)(p, a, q, b, scale=s)[0](1.0) == ga),
                onp.all(make_jvp(fun, 1)(p, a, q, b, scale=s)(onp.ones_like(a))[1] == onp.sum(ga)),
            ]
            # negative positions count from the end like any Python index (a refusal is loud, hence acceptable;
            # a silently different selection is not)
            def neg(thunk):
                try:
                    return bool(thunk())
                except Exception:
                    return True
            checks += [
                neg(lambda: onp.all(grad(fun, -1)(p, a, q, b, scale=s, extra=5.0) == gb)),
                neg(lambda: onp.all(grad(fun, -3)(p, a, q, b, scale=s) == ga)),
                neg(lambda: all(onp.all(u == w) for u, w in zip(grad(fun, (-1, 1))(p, a, q, b, scale=s), (gb, ga)))),
                neg(lambda: all(onp.all(u == w) for u, w in zip(grad(fun, [-3, -1])(p, a, q, b, scale=s), (ga, gb)))),
                neg(lambda: onp.all(value_and_grad(fun, -1)(p, a, q, b, scale=s)[1] == gb)),
                neg(lambda: onp.all(jacobian(fun, -3)(p, a, q, b, scale=s) == ga)),
                neg(lambda: onp.all(make_vjp(fun, -1)(p, a, q, b, scale=s)[0](1.0) == gb)),
                neg(lambda: onp.all(make_jvp(fun, -3)(p, a, q, b, scale=s)(onp.ones_like(a))[1] == onp.sum(ga))),
            ]
            # the second-order and product operators with a non-default argnum (positional and by keyword)
            vv_ = onp.ones_like(a) * 2.0 + a
            hv_true = 2.0 * b * p * s * vv_
            from autograd import hessian_vector_product as _hvp_, make_ggnvp as _ggn_
            checks += [
                onp.all(hessian_tensor_product(fun, 1)(p, a, q, b, vv_, scale=s) == hv_true),
                onp.all(hessian_tensor_product(fun, argnum=1)(p, a, q, b, vv_, scale=s) == hv_true),
                onp.all(_hvp_(fun, 1)(p, a, q, b, vv_, scale=s) == hv_true),
                onp.all(make_hvp(fun, 1)(p, a, q, b, scale=s)[0](vv_) == hv_true),
                onp.all(onp.tensordot(hessian(fun, 1)(p, a, q, b, scale=s), vv_, onp.ndim(a)) == hv_true),
                onp.all(hessian_tensor_product(fun, 3)(p, a, q, b, vv_, scale=s) == 0.0 * b),
                onp.all(tensor_jacobian_product(lambda p_, z, w: z * z * w, 1)(p, a, b, vv_) == 2.0 * a * b * vv_),
                onp.all(_ggn_(lambda p_, z: z * p_, lambda y: anp.sum(y * y), 1)(p, a)(vv_) == 2.0 * p * p * vv_),
            ]
            # hessian of a vector-valued function is jacobian(jacobian): shape out + in + in, entry by entry
            for oshape in ((2,), (2, 2), (1,)):
                cf2 = onp.arange(1.0, 1.0 + int(onp.prod(oshape))).reshape(oshape)
                vmap = lambda z, cf2=cf2: cf2 * anp.sum(z * z * z) + cf2 * cf2 * anp.sum(z) ** 2      # noqa: E731
                Hjj = jacobian(jacobian(vmap))(a)
                checks.append(neg(lambda vmap=vmap, Hjj=Hjj: onp.shape(hessian(vmap)(a)) == onp.shape(Hjj) and onp.all(hessian(vmap)(a) == Hjj)))
            # make_ggnvp / make_hvp objects applied at a second, different point (non-quadratic outer function)
            gg = _ggn_(lambda z: z * z, lambda y: anp.sum(y * y * y))
            fresh1 = _ggn_(lambda z: z * z, lambda y: anp.sum(y * y * y))(a)(vv_)
            fresh2 = _ggn_(lambda z: z * z, lambda y: anp.sum(y * y * y))(a + 1.0)(vv_)
            checks += [onp.all(gg(a)(vv_) == fresh1), onp.all(gg(a + 1.0)(vv_) == fresh2), onp.all(gg(a)(vv_) == fresh1)]
            hv = make_hvp(lambda z: anp.sum(z * z * z * z))
            checks += [onp.all(hv(a)[0](vv_) == 12.0 * a * a * vv_), onp.all(hv(a + 1.0)[0](vv_) == 12.0 * (a + 1.0) ** 2 * vv_),
                       onp.all(hv(a)[0](vv_) == 12.0 * a * a * vv_)]
            # tensor-Jacobian products with tensors of rank 1, 2 against outputs of rank 1..3 (square leading axes included)
            from autograd import vector_jacobian_product as _vjp_op
            for oshape in ((3,), (3, 3), (3, 3, 2), (2, 3, 3), (3, 2)):
                cf_ = onp.arange(1.0, 1.0 + int(onp.prod(oshape))).reshape(oshape)
                hmap = lambda z, cf_=cf_: cf_ * anp.sum(z * z) + anp.sum(z) * cf_ * cf_        # noqa: E731   output shape oshape
                Jz = jacobian(hmap)(a)
                for trank in (1, 2):
                    if trank > len(oshape):
                        continue
                    tsh = oshape[:trank]
                    tv = onp.arange(2.0, 2.0 + int(onp.prod(tsh))).reshape(tsh)
                    want = onp.tensordot(tv, Jz, trank)
                    checks.append(neg(lambda hmap=hmap, tv=tv, want=want: onp.shape(tensor_jacobian_product(hmap)(a, tv)) == onp.shape(want)
                                      and onp.all(tensor_jacobian_product(hmap)(a, tv) == want)))
                    checks.append(neg(lambda hmap=hmap, tv=tv, want=want: onp.all(_vjp_op(hmap)(a, tv) == want)))
            # selection by name on bound methods, class methods and static methods (the bound parameter is not an argument)
            class _M:
                def meth(self, a_, b_):
                    return anp.sum(a_ * a_ * b_) * p

                @classmethod
                def cmeth(cls, a_, b_):
                    return anp.sum(a_ * a_ * b_) * p

                @staticmethod
                def smeth(a_, b_):
                    return anp.sum(a_ * a_ * b_) * p
            checks += [onp.all(grad_named(_M().meth, "a_")(a, b) == 2.0 * a * b * p), onp.all(grad_named(_M().meth, "b_")(a, b) == a * a * p),
                       onp.all(grad_named(_M.cmeth, "b_")(a, b) == a * a * p), onp.all(grad_named(_M.smeth, "a_")(a, b) == 2.0 * a * b * p),
                       onp.all(grad_named(_M().smeth, "b_")(a, b) == a * a * p)]
            # ... on a method reached through its class (called with an explicit instance) and on a plain function whose
            # first parameter happens to be called `self` / `cls`: those ARE arguments of the call
            def _selfish(self, a_, b_):
                return anp.sum(a_ * a_ * b_) * self

            def _clsish(cls, b_):
                return anp.sum(b_ * b_) * cls
            checks += [neg(lambda: onp.all(grad_named(_M.meth, "a_")(_M(), a, b) == 2.0 * a * b * p)),
                       neg(lambda: onp.all(grad_named(_M.meth, "b_")(_M(), a, b) == a * a * p)),
                       neg(lambda: onp.all(grad_named(_selfish, "b_")(p, a, b) == a * a * p)),
                       neg(lambda: float(grad_named(_selfish, "self")(p, a, b)) == float(onp.sum(a * a * b))),
                       neg(lambda: onp.all(grad_named(_clsish, "b_")(p, b) == 2.0 * b * p))]
            # ... on callable objects and partial applications (the call takes the parameters that remain)
            import functools as _ft

            class _Callable:
                def __call__(self, a_, b_):
                    return anp.sum(a_ * a_ * b_) * p

            def _three(c_, a_, b_):
                return anp.sum(a_ * a_ * b_) * c_
            checks += [neg(lambda: onp.all(grad_named(_Callable(), "a_")(a, b) == 2.0 * a * b * p)),
                       neg(lambda: onp.all(grad_named(_Callable(), "b_")(a, b) == a * a * p)),
                       neg(lambda: onp.all(grad_named(_ft.partial(_three, p), "b_")(a, b) == a * a * p)),
                       neg(lambda: onp.all(grad_named(_ft.partial(_three, p), "a_")(a, b) == 2.0 * a * b * p))]
            # one operator OBJECT applied at several points / extra arguments: whatever an earlier application returned
            # keeps belonging to ITS arguments, also when it is evaluated after the later applications
            op_j, op_v = make_jvp(fun, 1), make_vjp(fun, 3)
            push1 = op_j(p, a, q, b, scale=s, extra=5.0)
            pull1 = op_v(p, a, q, b, scale=s)[0]
            push2 = op_j(p + 1.0, a + 1.0, q, b - 1.0, scale=s + 1.0)
            pull2 = op_v(p + 2.0, a - 1.0, q + 1.0, b, scale=2.0 * s)[0]
            ga2 = grad(lambda z: fun(p + 1.0, z, q, b - 1.0, scale=s + 1.0))(a + 1.0)
            gb2 = grad(lambda z: fun(p + 2.0, a - 1.0, q + 1.0, z, scale=2.0 * s))(b)
            v1, t1 = push1(onp.ones_like(a))
            v2, t2 = push2(onp.ones_like(a))
            checks += [t1 == onp.sum(ga), v1 == fun(p, a, q, b, scale=s, extra=5.0), t2 == onp.sum(ga2),
                       v2 == fun(p + 1.0, a + 1.0, q, b - 1.0, scale=s + 1.0),
                       onp.all(pull1(1.0) == gb), onp.all(pull2(1.0) == gb2), onp.all(pull1(2.0) == 2.0 * gb)]
            # ... and re-entrantly: the function being differentiated calls the very operator object differentiating it
            holder = {}

            def rec(z, depth):
                if depth == 0:
                    return anp.sum(z * z * z)
                return anp.sum(holder["g"](z * 2.0, depth - 1) * z)
            holder["g"] = grad(rec)
            # rec(z,1) = sum(3 (2z)^2 z) = 12 sum z^3 ; gradient 36 z^2
            checks.append(onp.all(holder["g"](a, 1) == 36.0 * a * a))
            # a variadic function: every position, counted from either end
            def vfun(*zs):
                return float(len(zs)) * sum((i + 2.0) * anp.sum(z * z) for i, z in enumerate(zs))
            va, vb, vc = a, b + 1.0, a - b
            for pos in (0, 1, 2, -1, -2, -3):
                want = 3.0 * 2.0 * ((pos % 3) + 2.0) * (va, vb, vc)[pos]
                checks.append(neg(lambda pos=pos, want=want: onp.all(grad(vfun, pos)(va, vb, vc) == want)))
                checks.append(neg(lambda pos=pos, want=want: onp.all(make_vjp(vfun, pos)(va, vb, vc)[0](1.0) == want)))
            checks.append(neg(lambda: float(value_and_grad(vfun, -1)(va, vb, vc)[0]) == float(vfun(va, vb, vc))))
            checks.append(neg(lambda: all(onp.all(u == w) for u, w in zip(grad(vfun, (-1, 0))(va, vb, vc), (3.0 * 2.0 * 4.0 * vc, 3.0 * 2.0 * 2.0 * va)))))
            if not all(bool(c) for c in checks):
                out["oracle_bad"].append({"oracle": "argnum-algebra", "shape": list(sh), "checks": [bool(c) for c in checks],
                                          "site": {"oracle": "argnum-algebra"}})
        except Exception as ex:
            out["oracle_bad"].append({"oracle": "argnum-algebra", "shape": list(sh), "error": repr(ex),
                                      "site": {"oracle": "argnum-algebra"}})
    # ---- selection by name on short-lived functions (a history): every call must select by THIS function's signature ----
    hist_bad = []
    for it in range(40):
        coef = float(rng.randint(2, 5))
        if it % 2 == 0:
            fn = lambda a_, b_, coef=coef: anp.sum(a_ * a_ * b_) * coef            # noqa: E731
            pos = 1
        else:
            fn = lambda b_, extra_, a_, coef=coef: anp.sum(a_ * a_ * b_) * coef + extra_   # noqa: E731
            pos = 0
        a = onp.array([float(rng.randint(1, 3)) for _ in range(3)])
        b = onp.array([float(rng.randint(1, 3)) for _ in range(3)])
        args = (a, b) if it % 2 == 0 else (b, 1.0, a)
        out["oracle_n"] += 1
        try:
            got = grad_named(fn, "b_")(*args)
            want = grad(fn, pos)(*args)
            if not (onp.shape(got) == onp.shape(want) and onp.all(got == want) and onp.all(want == a * a * coef)):
                hist_bad.append({"iteration": it, "got": onp.asarray(got).tolist(), "want": onp.asarray(want).tolist()})
        except Exception as ex:
            hist_bad.append({"iteration": it, "error": repr(ex)})
        del fn
    dist("named-selection-history")
    if hist_bad:
        out["oracle_bad"].append({"oracle": "grad_named over a history of short-lived functions", "first": hist_bad[0],
                                  "n_wrong": len(hist_bad), "site": {"oracle": "argnum-algebra-history"}})
    # ---- the argument-selection algebra against its model (Operators/Argnum.v, RunArg.v): util.subvals on integer tuples,
    #      and what unary_to_nary hands to a unary operator (the point, and the arguments of fun at a displaced point) ----
    from autograd.util import subvals as _subvals, subval as _subval
    from autograd.wrap_util import unary_to_nary as _u2n

    @_u2n
    def _probe(fun, x, new):
        return x, fun(new)
    out["subcases"], out["argcases"] = [], []
    for it in range(cfg.get("n_arg", 60)):
        nargs = rng.randint(1, 6)
        xs_ = tuple(rng.randint(-9, 9) for _ in range(nargs))
        ivs = [(rng.randrange(nargs), rng.randint(-9, 9)) for _ in range(rng.randint(0, 4))]
        try:
            r_ = list(_subvals(xs_, ivs)) if it % 3 else (list(_subval(xs_, ivs[0][0], ivs[0][1])) if ivs else list(xs_))
            if it % 3 == 0:
                ivs = ivs[:1]
            out["subcases"].append({"x": list(xs_), "ivs": [list(t) for t in ivs], "impl": [int(t) for t in r_]})
        except Exception as ex:
            out["oracle_bad"].append({"oracle": "util.subvals raised %r on %r %r" % (ex, xs_, ivs), "site": {"oracle": "argnum-model"}})
        dist("subvals")
        if it % 2 == 0:
            an = rng.randrange(nargs)
            new = rng.randint(-9, 9)
            newl = [new]
        else:
            k_ = rng.randint(0, nargs)
            an = rng.sample(range(nargs), k_)
            newl = [rng.randint(-9, 9) for _ in an]
            new = tuple(newl) if it % 4 == 1 else list(newl)
            an = tuple(an) if it % 4 == 1 else list(an)
        try:
            point, call = _probe(lambda *a: a, an, new)(*xs_)
            pt = [int(point)] if isinstance(an, int) else [int(t) for t in point]
            ok_type = isinstance(an, int) or isinstance(point, tuple)
            out["argcases"].append({"args": list(xs_), "an": an if isinstance(an, int) else list(an), "tuple": not isinstance(an, int), "new": newl,
                                    "point": pt if ok_type else [], "call": [int(t) for t in call]})
        except Exception as ex:
            out["oracle_bad"].append({"oracle": "unary_to_nary raised %r for argnum %r" % (ex, an), "site": {"oracle": "argnum-model"}})
        dist("argnum:" + ("int" if isinstance(an, int) else type(an).__name__))
    print(json.dumps(out))


if __name__ == "__main__":
    main()
