"""C19, faults in the backward pass: a derivative rule of a random node of a
random graph raises once; afterwards the same VJP function (and fresh
differentiations, also from an enclosing differentiation that caught the error)
must give what a fresh interpreter gives."""
import json
import random
import sys
import warnings

sys.path.insert(0, __file__.rsplit("/", 1)[0])
import impl_c03 as G  # noqa: E402
from autograd.core import make_vjp  # noqa: E402
from autograd import grad  # noqa: E402

warnings.simplefilter("ignore")


def main():
    cfg = json.load(sys.stdin)
    rng = random.Random(cfg["seed"])
    out = {"n": 0, "keys": [], "bad": [], "dist": {}, "samples": []}
    for it in range(cfg["n"]):
        nodes, e = G.gen_tape(rng, cfg.get("size", 12))
        x0 = float(rng.choice([1, 2, -1]))
        g = float(rng.choice([1, 2, -1]))

        def f(x):
            rec = G.Recorder()
            rec.root(x)
            vals = [x]
            for i, (kind, consts, args) in enumerate(nodes, 1):
                a = [vals[j] if t == "n" else float(j) for t, j in args]
                vals.append(rec.call(kind, tuple(consts), *a))
            return vals[e]
        try:
            G.BOMB.update(armed=False, node=None)
            vjp0, val0 = make_vjp(f, x0)
            if not G.isbox(val0) and not hasattr(vjp0, "__call__"):
                continue
            fresh = vjp0(g)
            del G.LOG[:]
            vjp, val = make_vjp(f, x0)
            vjp(g)
            ran = list(G.LOG)
        except Exception:
            continue
        if len(ran) < 2:
            continue
        out["n"] += 1
        bomb = rng.choice(ran)                       # a node whose rule really runs
        key = "%s|bomb=%d" % (json.dumps(nodes)[:60], bomb)
        out["keys"].append(key)
        out["dist"]["bomb-position=%s" % ("first" if bomb == ran[0] else "later")] = \
            out["dist"].get("bomb-position=%s" % ("first" if bomb == ran[0] else "later"), 0) + 1
        probs = []
        try:
            G.BOMB.update(armed=True, node=bomb)
            try:
                vjp(g)
                probs.append("the planted rule fault did not propagate")
            except RuntimeError:
                pass
            G.BOMB.update(armed=False)
            again = vjp(g)
            if float(again) != float(fresh):
                probs.append("same VJP function after a failed backward pass: %r, fresh interpreter: %r" % (float(again), float(fresh)))
            new = make_vjp(f, x0)[0](g)
            if float(new) != float(fresh):
                probs.append("new differentiation after a failed backward pass: %r vs %r" % (float(new), float(fresh)))

            # the failure is caught inside an enclosing differentiation, which then retries
            def outer(y):
                v, _ = make_vjp(f, y)
                G.BOMB.update(armed=True, node=bomb)
                try:
                    v(1.0)
                except RuntimeError:
                    pass
                G.BOMB.update(armed=False)
                return v(1.0) * y
            def outer_clean(y):
                return make_vjp(f, y)[0](1.0) * y
            a, b = grad(outer)(x0), grad(outer_clean)(x0)
            if float(a) != float(b):
                probs.append("enclosing differentiation that caught a backward-pass fault: %r vs %r" % (float(a), float(b)))
        except Exception as ex:
            probs.append("unexpected %r" % (ex,))
        finally:
            G.BOMB.update(armed=False, node=None)
        if len(out["samples"]) < 2:
            out["samples"].append({"nodes": nodes, "end": e, "bomb": bomb})
        if probs:
            out["bad"].append({"oracle": "backward-fault", "nodes": nodes, "end": e, "bomb": bomb, "x": x0, "g": g,
                               "problems": probs, "site": {"oracle": "backward-fault"}})
    print(json.dumps(out))


if __name__ == "__main__":
    main()
