#!/bin/sh
# Re-base an archived seeded change whose patch no longer applies after a repair of /repo, and re-confirm it:
#   harness/rebase_seed.sh <name, e.g. C06-25>
# works on a scratch worktree of /repo (removed afterwards); on success the re-based patch is left in
# /tmp/rebase_<name>.diff - move the old patch to patch.orig.diff, copy the new one in and add "rebased" to meta.json.
n=$1; d=/verif/seeded/$n; pid=${n%%-*}; W=/tmp/rebase_wt_$$
git -C /repo worktree add --detach $W HEAD -f >/dev/null 2>&1 || exit 2
cd $W || exit 2
if ! patch -p1 --fuzz=3 --no-backup-if-mismatch < $d/patch.diff > /tmp/rebase_$n.log 2>&1; then
  echo "$n: patch REJECTED (re-base by hand)"; tail -5 /tmp/rebase_$n.log; cd /; git -C /repo worktree remove --force $W; exit 1
fi
find . -name '*.orig' -delete
git diff > /tmp/rebase_$n.diff
dw=$(PYTHONPATH=$W timeout 300 /venv/bin/python $d/demo.py >/dev/null 2>&1; echo $?)
t=$(PYTHONPATH=$W timeout 900 /venv/bin/python -m pytest -q -p no:cacheprovider 2>&1 | grep -c "496 passed")
v=$(cd /verif && VERIF_REPO=$W timeout 1500 ./check $pid 2>&1 | grep -c "^VIOLATION property=$pid")
git checkout -q -- .
dwo=$(PYTHONPATH=$W timeout 300 /venv/bin/python $d/demo.py >/dev/null 2>&1; echo $?)
echo "$n: demo_with=$dw tests_ok=$t violations=$v demo_without=$dwo"
cd /; git -C /repo worktree remove --force $W; git -C /repo worktree prune
