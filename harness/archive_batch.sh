#!/bin/sh
# Archive the confirmed seed_1 / seed_2 changes of a batch of sub-agent worktrees under /verif/seeded/<id>-<next number>:
#   harness/archive_batch.sh <prefix, e.g. /tmp/wt14_> <batch number> "<space separated Cxx_seed_i that were missed at first>" <ids...>
pre="$1"; bn="$2"; missed=" $3 "; shift 3
for p in "$@"; do
  last=$(ls /verif/seeded | grep "^$p-" | sed 's/.*-//' | sort -n | tail -1)
  for k in 1 2; do
    d=${pre}$p/seed_$k
    [ -f "$d/patch.diff" ] || { echo "missing $d"; continue; }
    git -C /repo apply --check "$d/patch.diff" || { echo "NOAPPLY $d"; continue; }
    last=$((last+1)); name=$p-$last
    if echo "$missed" | grep -q " ${p}_seed_$k "; then note="missed by the check as it stood; caught after the check was strengthened (batch $bn)"; else note="caught by the check as it stood (batch $bn)"; fi
    /venv/bin/python /verif/harness/keep_seed.py "$d" "$name" "./check $p" "$note" >/dev/null
    for f in $(ls "$d" | grep -v -e '^patch.diff$' -e '^demo.py$' -e '^meta.json$' -e __pycache__); do cp -r "$d/$f" /verif/seeded/$name/; done
    echo "kept $name ($note)"
  done
done
