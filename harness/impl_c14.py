"""Implementation-only oracle cases for C14: exact zeros of the right structure
for outputs independent of the argument (all operators, container arguments),
and the registered non-differentiable functions (plain values equal to NumPy's,
no derivative flow)."""
import json
import random
import sys
import warnings

import numpy as onp
import autograd.numpy as anp
from autograd import grad, value_and_grad, elementwise_grad, jacobian, make_jvp, make_vjp, deriv
from autograd.numpy import numpy_vjps
from autograd.tracer import isbox, getval
from autograd.builtins import tuple as atuple, list as alist, dict as adict  # noqa: F401

warnings.simplefilter("ignore")


def rand_arg(rng, depth=2):
    r = rng.random()
    if depth == 0 or r < 0.45:
        k = rng.random()
        if k < 0.3:
            return float(rng.randint(-3, 3))
        shape = tuple(rng.choice([1, 2, 3]) for _ in range(rng.randint(0, 3)))
        return onp.array(onp.arange(int(onp.prod(shape)) if shape else 1).reshape(shape) - 1.0)
    n = rng.randint(0, 3)
    if r < 0.65:
        return [rand_arg(rng, depth - 1) for _ in range(n)]
    if r < 0.85:
        return tuple(rand_arg(rng, depth - 1) for _ in range(n))
    return {"k%d" % i: rand_arg(rng, depth - 1) for i in range(n)}


def same_zero(z, x):
    """z is an exact zero with the structure of x."""
    if isbox(z) or z is None:
        return False
    if isinstance(x, (list, tuple)):
        return type(z) is type(x) and len(z) == len(x) and all(same_zero(a, b) for a, b in zip(z, x))
    if isinstance(x, dict):
        return isinstance(z, dict) and set(z) == set(x) and all(same_zero(z[k], x[k]) for k in x)
    za = onp.asarray(z)
    xa = onp.asarray(x)
    return za.shape == xa.shape and za.dtype == onp.result_type(xa.dtype, onp.float64) and not onp.any(za != 0) \
        and not onp.any(onp.isnan(za))


ELEMWISE = ["floor", "ceil", "round", "rint", "around", "fix", "trunc", "sign"]
NOGRAD_PINNED = ['all', 'allclose', 'any', 'argmax', 'argmin', 'argpartition', 'argsort', 'argwhere', 'around', 'array_equal',
                 'array_equiv', 'ceil', 'count_nonzero', 'equal', 'fix', 'flatnonzero', 'floor', 'floor_divide', 'greater',
                 'greater_equal', 'isclose', 'iscomplex', 'iscomplexobj', 'isfinite', 'isinf', 'isnan', 'isneginf', 'isposinf',
                 'isreal', 'isscalar', 'less', 'less_equal', 'logical_and', 'logical_not', 'logical_or', 'logical_xor', 'ndim',
                 'nonzero', 'not_equal', 'ones_like', 'result_type', 'rint', 'round', 'searchsorted', 'shape', 'sign', 'size',
                 'trunc', 'zeros_like']
PRED1 = ["isfinite", "isinf", "isnan", "isneginf", "isposinf", "logical_not", "iscomplex", "isreal"]
CMP2 = ["greater", "greater_equal", "less", "less_equal", "equal", "not_equal", "logical_and", "logical_or",
        "logical_xor", "floor_divide", "isclose"]
RED = ["all", "any", "argmax", "argmin", "argsort", "argwhere", "nonzero", "flatnonzero", "count_nonzero"]
META = ["ndim", "shape", "size", "iscomplexobj", "isscalar", "zeros_like", "ones_like", "result_type"]
CMPALL = ["allclose", "array_equal", "array_equiv"]


def eq(a, b):
    if isinstance(a, tuple) or isinstance(a, list):
        return type(a) is type(b) and len(a) == len(b) and all(eq(x, y) for x, y in zip(a, b))
    try:
        aa, bb = onp.asarray(a), onp.asarray(b)
        return aa.shape == bb.shape and aa.dtype == bb.dtype and bool(onp.all(aa == bb))
    except Exception:
        return a == b


def spoil(v):
    """overwrite, in place, every array reachable in a returned zero"""
    if isinstance(v, onp.ndarray):
        if v.flags.writeable and v.size:
            v[...] = 7.0
    elif isinstance(v, (list, tuple)):
        for t in v:
            spoil(t)
    elif isinstance(v, dict):
        for t in v.values():
            spoil(t)


def has_box(v):
    if isbox(v):
        return True
    if isinstance(v, (tuple, list)):
        return any(has_box(x) for x in v)
    return False


def nograd_case(name, rng):
    """Returns (call(npmod, x) -> value, x0) or None if there is no template."""
    shape = tuple(rng.choice([1, 2, 3]) for _ in range(rng.randint(1, 2)))
    x0 = onp.array([rng.choice([-1.5, -0.5, 0.5, 1.5, 2.5]) for _ in range(int(onp.prod(shape)))]).reshape(shape)
    y0 = onp.array([rng.choice([-1.5, 0.5, 2.5]) for _ in range(int(onp.prod(shape)))]).reshape(shape)
    if name in ELEMWISE or name in PRED1 or name in RED or name in META:
        return (lambda m, x: getattr(m, name)(x)), x0
    if name in CMP2 or name in CMPALL:
        if rng.random() < 0.5:
            return (lambda m, x: getattr(m, name)(x, y0)), x0
        return (lambda m, x: getattr(m, name)(y0, x)), x0
    if name == "argpartition":
        return (lambda m, x: m.argpartition(x.ravel(), 0)), x0
    if name == "searchsorted":
        return (lambda m, x: m.searchsorted(onp.array([-1.0, 0.0, 1.0, 2.0]), x)), x0
    return None


def _len_or_one(z):
    try:
        return len(z)
    except TypeError:
        return 1


def main():
    cfg = json.load(sys.stdin)
    rng = random.Random(cfg["seed"])
    out = {"n": 0, "keys": [], "samples": [], "bad": [], "dist": {}}

    def dist(k):
        out["dist"][k] = out["dist"].get(k, 0) + 1

    def record(kind, desc, ok, detail=None):
        out["n"] += 1
        out["keys"].append(kind + ":" + desc)
        if len(out["samples"]) < 3:
            out["samples"].append({"kind": kind, "case": desc})
        dist(kind.split(":")[0])
        if not ok:
            out["bad"].append({"oracle": kind, "case": desc, "detail": detail,
                               "site": {"oracle": kind}})

    # ---- independent outputs: every operator, container arguments ----
    for i in range(cfg["n"]):
        x = rand_arg(rng)
        c = float(rng.randint(1, 3))
        desc = "x=%r" % (x,)
        try:
            z = grad(lambda a: c * 2.0)(x)
            record("grad-independent", desc, same_zero(z, x), repr(z))
            v, z = value_and_grad(lambda a: c * 2.0)(x)
            record("value_and_grad-independent", desc, same_zero(z, x) and v == c * 2.0, repr(z))
            out_val = onp.ones((2,)) * c
            vjp, val = make_vjp(lambda a: out_val)(x)
            z = vjp(onp.ones(2))
            record("make_vjp-independent", desc, same_zero(z, x) and eq(val, out_val), repr(z))
            # the zero handed out is the caller's to keep (and to overwrite): the next call still returns an exact zero
            try:
                spoil(z)
            except Exception:
                pass
            z2 = vjp(onp.ones(2))
            record("make_vjp-independent-second-call", desc, same_zero(z2, x), repr(z2))
            val, t = make_jvp(lambda a: out_val)(x)(x)
            record("make_jvp-independent", desc, same_zero(t, out_val) and eq(val, out_val), repr(t))
            if isinstance(x, onp.ndarray) or isinstance(x, float):
                z = jacobian(lambda a: out_val)(x)
                record("jacobian-independent", desc,
                       onp.shape(z) == (2,) + onp.shape(x) and not onp.any(onp.asarray(z) != 0), repr(z))
                z = elementwise_grad(lambda a: out_val)(x)
                record("elementwise_grad-independent", desc, same_zero(z, x), repr(z))
        except Exception as ex:
            record("independent-raised", desc, False, repr(ex))
    # ---- independent of the argument, but built from a traced value that an EARLIER, finished differentiation left
    #      behind (memoised feature, closure, attribute): still an exact zero of the argument's space, both modes ----
    for i in range(max(4, cfg["n"] // 4)):
        cache = {}
        a0 = onp.array([rng.choice([0.1, 0.2, -0.4, 1.5]) for _ in range(rng.choice([1, 2, 4]))])
        first_mode = rng.choice(["rev", "fwd", "rev-in-rev"])

        def first(a):
            cache["feat"] = anp.sin(a) * 2.0
            return anp.sum(cache["feat"])
        x = rand_arg(rng)
        desc = "earlier=%s a=%r x=%r" % (first_mode, a0.tolist(), x)
        try:
            if first_mode == "rev":
                grad(first)(a0)
            elif first_mode == "fwd":
                make_jvp(first)(a0)(a0)
            else:
                grad(lambda c: anp.sum(grad(first)(c)))(a0)
            second = lambda b: anp.sum(cache["feat"]) * 3.0  # noqa: E731
            z = grad(second)(x)
            record("grad-independent-stale-value", desc, same_zero(z, x), repr(z))
            z = make_vjp(second)(x)[0](1.0)
            record("make_vjp-independent-stale-value", desc, same_zero(z, x), repr(z))
            t = make_jvp(second)(x)(x)[1]
            record("make_jvp-independent-stale-value", desc, not has_box(t) and onp.shape(t) == () and t == 0, repr(t))
        except Exception as ex:
            record("independent-stale-raised", desc, False, repr(ex))
    # ---- arguments whose rule is registered as None (no derivative flows): an exact zero of THAT ARGUMENT's space,
    #      whatever the space of the output ----
    from autograd.extend import primitive as _prim, defvjp as _defvjp

    @_prim
    def gate(c, a):
        return onp.where(onp.asarray(c) > 0, 1.0, 2.0) * a
    _defvjp(gate, None, lambda ans, c, a: lambda g: onp.sum(onp.reshape(g * onp.where(onp.asarray(c) > 0, 1.0, 2.0), (-1,) + onp.shape(a)), axis=0)
            if onp.shape(g) != onp.shape(a) else g * onp.where(onp.asarray(c) > 0, 1.0, 2.0))
    big34 = onp.arange(12.0).reshape(3, 4) + 1.0
    none_cases = [
        ("where: condition (3,1) against (3,4) branches", lambda c: anp.sum(anp.where(c, big34, -big34)), onp.array([[1.0], [0.0], [2.0]])),
        ("where: condition (4,) against (3,4) branches", lambda c: anp.sum(anp.where(c, big34, 2.0)), onp.array([1.0, 0.0, 0.0, 3.0])),
        ("where: scalar condition", lambda c: anp.sum(anp.where(c, big34, -big34)), 1.0),
        ("where: real condition, complex branches", lambda c: anp.sum(anp.real(anp.where(c, big34 * (1 + 2j), 1j))), onp.array([1.0, 0.0, 0.0, 3.0])),
        ("user primitive, None rule, argument (3,1) output (3,4)", lambda c: anp.sum(gate(c, big34)), onp.array([[1.0], [-1.0], [2.0]])),
        ("user primitive, None rule, scalar argument", lambda c: anp.sum(gate(c, big34)), 0.5),
    ]
    for name, fn, c0 in none_cases:
        try:
            z = grad(fn)(c0)
            record("none-rule-zero", name, same_zero(z, c0), repr(z))
            z2 = make_vjp(fn)(c0)[0](1.0)
            record("none-rule-zero-vjp", name, same_zero(z2, c0), repr(z2))
            # ... and next to a contribution that does flow
            z3 = grad(lambda c: fn(c) + anp.sum(c * 3.0))(c0)
            record("none-rule-plus-flow", name, onp.shape(z3) == onp.shape(c0) and bool(onp.all(onp.asarray(z3) == 3.0)), repr(z3))
        except Exception as ex:
            record("none-rule-raised", name, False, repr(ex))
    # ... and in forward mode: an exact zero of the OUTPUT's space, whatever the space of that argument
    from autograd.extend import defjvp as _defjvp
    _defjvp(gate, None, lambda g, ans, c, a: g * onp.where(onp.asarray(c) > 0, 1.0, 2.0))
    none_fwd = [
        ("where: condition (3,1) against (3,4) branches", lambda c: anp.where(c, big34, -big34), onp.array([[1.0], [0.0], [2.0]]), (3, 4)),
        ("where: condition (4,) against (3,4) branches", lambda c: anp.where(c, big34, 2.0), onp.array([1.0, 0.0, 0.0, 3.0]), (3, 4)),
        ("where: scalar condition", lambda c: anp.where(c, big34, -big34), 1.0, (3, 4)),
        ("where: condition (3,4), scalar branches", lambda c: anp.where(c, 1.0, -1.0), big34 - 4.0, (3, 4)),
        ("user primitive, None rule, argument (3,1) output (3,4)", lambda c: gate(c, big34), onp.array([[1.0], [-1.0], [2.0]]), (3, 4)),
        ("user primitive, None rule, scalar argument", lambda c: gate(c, big34), 0.5, (3, 4)),
    ]
    for name, fn, c0, oshape in none_fwd:
        try:
            t = make_jvp(fn)(c0)(onp.ones(onp.shape(c0)) * 1.0 if onp.shape(c0) else 1.0)[1]
            record("none-rule-zero-fwd", name, not has_box(t) and onp.shape(t) == oshape and bool(onp.all(onp.asarray(t) == 0)), repr(t))
            # ... next to a tangent that does flow
            t2 = make_jvp(lambda c: fn(c) + anp.sum(c) * 3.0)(c0)(onp.ones(onp.shape(c0)) * 1.0 if onp.shape(c0) else 1.0)[1]
            record("none-rule-plus-flow-fwd", name, onp.shape(t2) == oshape and bool(onp.all(onp.asarray(t2) == 3.0 * max(1, onp.size(c0)))), repr(t2))
        except Exception as ex:
            record("none-rule-fwd-raised", name, False, repr(ex))
    # ---- the registered non-differentiable functions ----
    # the non-differentiable function set is part of the property, not read off the implementation: the pinned
    # tree's list, plus whatever the current tree adds to it
    # a function the current tree registers as non-differentiable beyond the pinned list must BE piecewise constant:
    # its NumPy value does not move under small displacements of any floating-point argument (generic points)
    for fobj in numpy_vjps.nograd_functions:
        nm = fobj.__name__
        if nm in NOGRAD_PINNED:
            continue
        base = getattr(onp, nm, None)
        found = None
        pts = (onp.array([0.7, -1.3, 2.1]), onp.array([1.9, 0.4, -0.6]))
        for nargs in (1, 2):
            try:
                v0 = base(*pts[:nargs])
            except Exception:
                continue
            found = nargs
            moved = False
            for k in range(nargs):
                for h in (1e-3, -1e-3, 1e-6):
                    q = [p_.copy() for p_ in pts[:nargs]]
                    q[k] = q[k] + h
                    try:
                        v1 = base(*q)
                        if onp.shape(v1) != onp.shape(v0) or not onp.array_equal(onp.asarray(v1), onp.asarray(v0)):
                            moved = True
                    except Exception:
                        pass
            record("new-nograd-is-constant:" + nm, "%d argument(s)" % nargs, not moved,
                   "registered as non-differentiable, but its value moves with its argument")
            # ... also at special points (zeros, integers, ties between the arguments), where a piecewise-constant function
            # may JUMP (a change that does not shrink with the displacement) but must not move continuously
            for spts in ((onp.array([0.0, -1.0, 0.0]), onp.array([0.5, 0.25, -2.0])), (onp.array([1.0, 1.0, 2.0]), onp.array([1.0, 0.0, 2.0]))):
                try:
                    v0 = onp.asarray(base(*spts[:nargs]), float)
                except Exception:
                    continue
                creeping = False
                for k in range(nargs):
                    ds = []
                    for h in (1e-4, 1e-7):
                        q = [p_.copy() for p_ in spts[:nargs]]
                        q[k] = q[k] + h
                        try:
                            ds.append(float(onp.max(onp.abs(onp.asarray(base(*q), float) - v0))))
                        except Exception:
                            ds.append(0.0)
                    if 0.0 < ds[1] < 1e-3 and ds[1] < ds[0]:
                        creeping = True
                record("new-nograd-is-constant-at-special-points:" + nm, "%d argument(s)" % nargs, not creeping,
                       "registered as non-differentiable, but at zeros / ties its value follows an argument continuously")
            break
        if found is None:
            dist("new-nograd-no-template:" + nm)
    names = sorted(set(NOGRAD_PINNED) | {f.__name__ for f in numpy_vjps.nograd_functions})
    for name in names:
        for rep in range(3):
            tpl = nograd_case(name, rng)
            if tpl is None:
                dist("nograd-no-template:" + name)
                continue
            call, x0 = tpl
            seen = {}

            def f(x):
                r = call(anp, x)
                seen["boxed"] = has_box(r)
                seen["val"] = r
                return anp.sum(x)
            try:
                expected = call(onp, x0)
                g = grad(f)(x0)
                ok = (not seen["boxed"]) and eq(seen["val"], expected) and eq(g, onp.ones_like(x0))
                record("nograd-plain:" + name, "x=%r" % (x0.tolist(),), ok,
                       {"boxed": seen.get("boxed"), "val": repr(seen.get("val")), "expected": repr(expected)})
                jv = make_jvp(f)(x0)(onp.ones_like(x0))
                ok = (not seen["boxed"]) and eq(seen["val"], expected)
                record("nograd-plain-fwd:" + name, "x=%r" % (x0.tolist(),), ok, repr(seen.get("val")))
            except Exception as ex:
                record("nograd-raised:" + name, "x=%r" % (x0.tolist(),), False, repr(ex))
    # ---- the same functions in METHOD form on a traced array, and the comparison / truth operators ----
    METHODS = [("argmax", ()), ("argmin", ()), ("argsort", ()), ("any", ()), ("all", ()), ("nonzero", ()), ("round", ()),
               ("argmax", (0,)), ("argsort", (-1,)), ("argpartition", (0,)), ("searchsorted", (0.7,)),
               ("__gt__", (0.0,)), ("__lt__", (0.5,)), ("__ge__", (0.5,)), ("__le__", (0.5,)), ("__eq__", (0.5,)), ("__ne__", (0.5,)),
               ("__len__", ()), ("__bool__", ())]
    for mname, margs in METHODS:
        for rep in range(2):
            if mname == "__bool__":
                x0 = onp.array([rng.choice([-1.5, 0.5, 2.5])])
            elif mname == "searchsorted":
                x0 = onp.array(sorted(rng.sample([-1.5, -0.5, 0.5, 1.5, 2.5], 3)))
            else:
                shape = tuple(rng.choice([2, 3]) for _ in range(rng.randint(1, 2)))
                x0 = onp.array([rng.choice([-1.5, -0.5, 0.0, 0.5, 1.5, 2.5]) for _ in range(int(onp.prod(shape)))]).reshape(shape)
            seen = {}

            def fm(x, mname=mname, margs=margs):
                r = bool(x) if mname == "__bool__" else len(x) if mname == "__len__" else getattr(x, mname)(*margs)
                seen["boxed"] = has_box(r)
                seen["val"] = r
                return anp.sum(x)
            try:
                if not hasattr(x0, mname):
                    continue
                expected = bool(x0) if mname == "__bool__" else len(x0) if mname == "__len__" else getattr(x0, mname)(*margs)
                for opname, run_ in (("rev", lambda: grad(fm)(x0)), ("fwd", lambda: make_jvp(fm)(x0)(onp.ones_like(x0))),
                                     ("rev-rev", lambda: grad(lambda a: anp.sum(grad(lambda b: fm(a * b))(onp.ones_like(x0))))(x0))):
                    seen.clear()
                    run_()
                    ok = (not seen.get("boxed", True)) and eq(seen.get("val"), expected)
                    record("nograd-method:%s:%s" % (mname, opname), "x=%r args=%r" % (x0.tolist(), margs), ok,
                           {"boxed": seen.get("boxed"), "val": repr(seen.get("val")), "expected": repr(expected)})
            except Exception as ex:
                record("nograd-method-raised:" + mname, "x=%r" % (x0.tolist(),), False, repr(ex))
    # ---- len / iter / bool / index on traced values of rank 0 (and bool of several elements): the exception a plain array raises ----
    for qname, q in (("len(x)", lambda z: len(z)), ("iter(x)", lambda z: list(iter(z))), ("x[0]", lambda z: z[0]), ("bool(x)", lambda z: bool(z)),
                     ("try-len-except-TypeError", lambda z: (lambda: len(z))() if False else _len_or_one(z)), ("x.shape[0]", lambda z: z.shape[0]),
                     ("for t in x", lambda z: [t for t in z])):
        for x0 in (onp.array(2.5), onp.array([1.5, 2.5]), onp.array([[1.5]])):
            def outcome(v, q=q):
                try:
                    r = q(v)
                    while isbox(r):
                        r = r._value
                    return ("ok", repr(onp.asarray(r, dtype=object).tolist() if isinstance(r, list) else r))
                except Exception as ex:
                    return ("raised", type(ex).__name__)
            want = outcome(x0)
            got = {}

            def fq(z):
                got["o"] = outcome(z)
                return anp.sum(z)
            for opname, run_ in (("rev", lambda: grad(fq)(x0)), ("fwd", lambda: make_jvp(fq)(x0)(onp.ones_like(x0)))):
                got.clear()
                try:
                    run_()
                except Exception:
                    pass
                o = got.get("o")
                if o and o[0] == "ok" and want[0] == "ok":
                    ok = True                       # values of such queries are compared elsewhere (type queries, METHODS)
                else:
                    ok = o == want
                record("query-parity:%s:%s" % (qname, opname), "shape=%s" % (x0.shape,), ok, {"traced": o, "plain": want})
    # ---- operators with piecewise-constant results on traced arrays: NumPy's value exactly, or a loud refusal ----
    for oname, of in (("x // h", lambda x, h: x // h), ("h // x", lambda x, h: h // x), ("divmod(x, h)[0]", lambda x, h: divmod(x, h)[0]),
                      ("x // h (array h)", lambda x, h: x // (h * onp.ones_like(x))), ("round(x / h)", lambda x, h: round(x[0] / h)),
                      ("np.floor_divide(x, h)", lambda x, h: anp.floor_divide(x, h)), ("np.trunc(x / h)", lambda x, h: anp.trunc(x / h)),
                      ("np.floor(x / h)", lambda x, h: anp.floor(x / h)), ("np.rint(x / h)", lambda x, h: anp.rint(x / h))):
        for xv, hv in ((1.0, 0.1), (2.0, 0.2), (0.3, 0.1), (1.5, 0.5), (-1.0, 0.3), (7.0, 2.0)):
            x0 = onp.array([xv, xv + 1.0])
            try:
                expected = of(x0, hv)
            except Exception:
                continue
            seen = {}

            def fo(x, of=of, hv=hv):
                r = of(x, hv)
                seen["val"] = r
                seen["boxed"] = has_box(r)
                return anp.sum(x)
            for opname, run_ in (("rev", lambda: grad(fo)(x0)), ("fwd", lambda: make_jvp(fo)(x0)(onp.ones_like(x0)))):
                seen.clear()
                try:
                    run_()
                except Exception:
                    dist("floor-operator-refused")
                    continue
                v = seen.get("val")
                while isbox(v):
                    v = v._value
                record("floor-operator:%s:%s" % (oname, opname), "x=%r h=%r" % (xv, hv), eq(v, expected), {"got": repr(v), "numpy": repr(expected)})
    # ---- derivative flow is blocked: d/dx sum(x * f(x)) = f(x) ----
    for name in ELEMWISE + ["greater", "less"]:
        for rep in range(3):
            x0 = onp.array([rng.choice([-1.5, -0.5, 0.5, 1.5, 2.5]) for _ in range(3)])
            if name in ELEMWISE:
                fn = lambda m, x: getattr(m, name)(x)  # noqa: E731
            else:
                fn = lambda m, x: getattr(m, name)(x, 0.0)  # noqa: E731
            try:
                g = grad(lambda x: anp.sum(x * fn(anp, x)))(x0)
                record("blocks-flow:" + name, repr(x0.tolist()), eq(g, fn(onp, x0) * 1.0), repr(g))
                t = make_jvp(lambda x: x * fn(anp, x))(x0)(onp.ones(3))[1]
                record("blocks-flow-fwd:" + name, repr(x0.tolist()), eq(t, fn(onp, x0) * 1.0), repr(t))
            except Exception as ex:
                record("blocks-flow-raised:" + name, repr(x0.tolist()), False, repr(ex))
    # ---- conversions to a type without a derivative (bool, integers) are piecewise constant: the flow is blocked in both
    #      modes (or the conversion is refused loudly) ----
    convs = {"x.astype(bool)": lambda m, x: x.astype(bool), "x.astype(int)": lambda m, x: x.astype(int), "x.astype('int32')": lambda m, x: x.astype("int32"),
             "x.astype('uint8')": lambda m, x: x.astype("uint8"), "array(x, dtype=bool)": lambda m, x: m.array(x, dtype=bool),
             "array(x, dtype=int)": lambda m, x: m.array(x, dtype=int), "array(x, int)": lambda m, x: m.array(x, int),
             "array([x0,x1,x2], int)": lambda m, x: m.array([x[0], x[1], x[2]], int),
             "array([x0,x1,x2], dtype=int)": lambda m, x: m.array([x[0], x[1], x[2]], dtype=int),
             "array([x0,x1,x2], bool)": lambda m, x: m.array([x[0], x[1], x[2]], bool),
             "array((x0,x1,x2), 'int64')": lambda m, x: m.array((x[0], x[1], x[2]), "int64"),
             "full((3,), x[0], dtype=int)": lambda m, x: m.full((3,), x[0], dtype=int), "full((3,), x[1], dtype=bool)": lambda m, x: m.full((3,), x[1], dtype=bool)}
    for cname, cf in convs.items():
        for x0 in (onp.array([-1.5, 0.0, 2.5]), onp.array([3.0, 0.5, -2.0])):
            want = onp.asarray(cf(onp, x0), float)
            for opname, run_ in (("rev", lambda: grad(lambda x: anp.sum(x * cf(anp, x)))(x0)),
                                 ("fwd", lambda: make_jvp(lambda x: x * cf(anp, x))(x0)(onp.ones(3))[1]),
                                 ("rev-only-through", lambda: grad(lambda x: anp.sum(cf(anp, x) * 3.0) + 0.0 * anp.sum(x))(x0))):
                try:
                    got = onp.asarray(run_(), float)
                except (NotImplementedError, TypeError):
                    dist("conversion-refused")
                    continue
                except Exception as ex:
                    record("conversion-blocks-flow:%s:%s" % (cname, opname), repr(x0.tolist()), False, repr(ex))
                    continue
                record("conversion-blocks-flow:%s:%s" % (cname, opname), repr(x0.tolist()),
                       eq(got, onp.zeros(3) if opname == "rev-only-through" else want), repr(got.tolist()))
    # ---- (model correspondence) the members whose local constancy is PROVED (Rules/PiecewiseConst.v), at floats taken as the
    #      dyadic rationals they are: the value f(x) seen under tracing and the gradient of x * f(x), both modes, scalar and
    #      array arguments, function and operator spellings; compared in Coq with the integer model (Rules/Run14.v) ----
    out["pc_cases"] = []
    members = [(0, "floor", lambda m, x, c: m.floor(x)), (1, "ceil", lambda m, x, c: m.ceil(x)), (2, "trunc", lambda m, x, c: m.trunc(x)),
               (2, "fix", lambda m, x, c: m.fix(x)), (3, "sign", lambda m, x, c: m.sign(x)),
               (10, "rint", lambda m, x, c: m.rint(x)), (10, "round", lambda m, x, c: m.round(x)), (10, "around", lambda m, x, c: m.around(x)), (10, "x.round()", lambda m, x, c: x.round() if hasattr(x, "round") else m.round(x)),
               (4, "greater", lambda m, x, c: m.greater(x, c)), (4, "x > c", lambda m, x, c: x > c), (6, "c > x", lambda m, x, c: m.greater(c, x)),
               (5, "greater_equal", lambda m, x, c: m.greater_equal(x, c)), (5, "x >= c", lambda m, x, c: x >= c),
               (6, "less", lambda m, x, c: m.less(x, c)), (6, "x < c", lambda m, x, c: x < c), (4, "c < x", lambda m, x, c: m.less(c, x)),
               (7, "less_equal", lambda m, x, c: m.less_equal(x, c)), (7, "x <= c", lambda m, x, c: x <= c),
               (8, "equal", lambda m, x, c: m.equal(x, c)), (8, "x == c", lambda m, x, c: x == c),
               (9, "not_equal", lambda m, x, c: m.not_equal(x, c)), (9, "x != c", lambda m, x, c: x != c),
               (11, "logical_not", lambda m, x, c: m.logical_not(x)), (12, "isfinite", lambda m, x, c: m.isfinite(x)), (13, "isnan", lambda m, x, c: m.isnan(x)),
               (13, "isinf", lambda m, x, c: m.isinf(x)), (13, "isposinf", lambda m, x, c: m.isposinf(x)), (13, "isneginf", lambda m, x, c: m.isneginf(x)),
               (12, "isreal", lambda m, x, c: m.isreal(x)), (13, "iscomplex", lambda m, x, c: m.iscomplex(x))]

    def pc_point():
        k = rng.random()
        if k < 0.2:
            return float(rng.randint(-6, 6))                                   # a jump point of floor/ceil/trunc (and of sign at 0)
        if k < 0.4:
            return rng.randint(-6, 6) + rng.choice([0.5, 0.25, -0.125])
        if k < 0.55:
            return rng.randint(-6, 6) + rng.choice([1, -1]) * 2.0 ** -rng.randint(20, 45)   # next to a jump
        if k < 0.65:
            return rng.choice([1, -1]) * (2.0 ** rng.randint(50, 70) + rng.randint(0, 3))    # every such float is an integer
        if k < 0.75:
            return rng.choice([1, -1]) * 10.0 ** -rng.randint(5, 300)
        return rng.uniform(-50, 50)

    def as_int(v):
        a = onp.asarray(v)
        f = float(a)
        if a.shape != () or f != int(f):
            raise ValueError("not an integer-valued scalar: %r" % (v,))
        return int(f)

    for i in range(cfg["n"] * 3):
        code, mname, fn = members[i % len(members)]
        x0 = pc_point()
        c0 = x0 if (code >= 4 and rng.random() < 0.2) else (float(rng.randint(-6, 6)) if rng.random() < 0.5 else pc_point())
        as_array = rng.random() < 0.3
        seen = []

        def body(x):
            r = fn(anp, x, c0)
            seen.append(r)
            return anp.sum(x * r)
        arg = onp.array([x0, pc_point()]) if as_array else x0
        desc = "%s at x=%s c=%s%s" % (mname, float.hex(x0), float.hex(c0), " (first entry of an array)" if as_array else "")
        try:
            g_rev = grad(body)(arg)
            g_fwd = make_jvp(lambda x: x * fn(anp, x, c0))(arg)(onp.ones(2) if as_array else 1.0)[1]
            if any(has_box(r) for r in seen):
                record("pc-member-returned-a-box", desc, False, repr(seen[0]))
                continue
            v = fn(onp, arg, c0)
            if not eq(onp.asarray(seen[0]) * 1.0, onp.asarray(v) * 1.0):
                record("pc-member-value-differs-from-numpy", desc, False, "%r vs %r" % (seen[0], v))
                continue
            pick = (lambda t: onp.asarray(t)[0]) if as_array else (lambda t: t)
            p, q = x0.as_integer_ratio()
            pc, qc = c0.as_integer_ratio()
            for mode, g in (("rev", g_rev), ("fwd", g_fwd)):
                out["pc_cases"].append({"code": code, "name": mname, "mode": mode, "x": float.hex(x0), "c": float.hex(c0), "array": as_array,
                                        "pq": [p, q], "pcqc": [pc, qc], "v": as_int(pick(v)), "g": as_int(pick(g))})
            dist("pc-member:" + mname)
        except Exception as ex:
            record("pc-member-raised", desc, False, repr(ex))
    out["keys"] = sorted(set(out["keys"]))
    print(json.dumps(out, default=str))


if __name__ == "__main__":
    main()
