"""Implementation side of C17: generated user primitives (arity 1..5) registered
through every API, differentiated with respect to every non-empty subset of
positions, at one or two trace levels, with keyword arguments; plus checkpoint."""
import itertools
import json
import random
import sys
import warnings

import numpy as onp
import autograd.numpy as anp
from autograd import grad, make_vjp, make_jvp
from autograd.core import primitive, defvjp, defvjp_argnum, defvjp_argnums, defjvp, defjvp_argnum, def_linear
from autograd.differential_operators import checkpoint
from autograd.tracer import isbox

sys.path.insert(0, __file__.rsplit("/", 1)[0])
import impl_l2  # noqa: E402

warnings.simplefilter("ignore")
CODE = [2, 3, 5, 7, 11, 13, 17, 19, 23, 29]


def new_prim():
    @primitive
    def p(*args, **kw):
        r = 1.0
        for a in args:
            r = r * anp.sum(a)
        return r * kw.get("scale", 1.0)
    return p


def spell_argnums(rng, nums):
    """the same argument numbers as another kind of iterable (sequence, view, or one-shot iterator)"""
    forms = [list, tuple, iter, lambda xs: (i for i in xs), lambda xs: map(int, xs), lambda xs: onp.array(xs).tolist()]
    if len(set(nums)) == len(nums):
        forms.append(lambda xs: dict.fromkeys(xs).keys())
    return rng.choice(forms)(list(nums))


def vjp_case(rng):
    """argument k is an array of shape (k+1,), so the space every returned cotangent lives in is observable"""
    n = rng.randint(1, 5)
    api = rng.choice(["defvjp", "defvjp", "defvjp", "argnum", "argnums"])
    p = new_prim()
    xs = [onp.array([float(rng.choice([1, 2, 3, -1, -2])) for _ in range(k + 1)]) for k in range(n)]
    kw = {"scale": float(rng.choice([1, 2]))} if rng.random() < 0.4 else {}
    log = []
    makers, argnums_kw = [], None

    def rule(rid, pos):
        def maker(ans, *args, **kwargs):
            log.append((rid, float(ans) if not isbox(ans) else "box", [isbox(a) for a in args], dict(kwargs),
                        all(onp.shape(a) == (i + 1,) for i, a in enumerate(args))))
            return lambda g: g * float(CODE[rid]) * onp.ones(pos + 1)
        return maker

    if api == "defvjp":
        m = rng.randint(0, n)
        makers = [("r", rng.randrange(10)) if rng.random() < 0.7 else ("n",) for _ in range(m)]
        positions = list(range(m))
        if rng.random() < 0.5 and m:
            argnums_kw = [rng.randrange(n) for _ in range(m)] if rng.random() < 0.3 else \
                rng.sample(range(n), min(m, n))
            makers = makers[:len(argnums_kw)]
            positions = list(argnums_kw)
        fns = [rule(mk[1], pos) if mk[0] == "r" else None for mk, pos in zip(makers, positions)]
        if argnums_kw is not None:
            defvjp(p, *fns, argnums=spell_argnums(rng, argnums_kw))
        else:
            defvjp(p, *fns)
    elif api == "argnum":
        rid = rng.randrange(10)
        makers = [("r", rid)]

        def maker(argnum, ans, args, kwargs):
            log.append((rid, float(ans) if not isbox(ans) else "box", [isbox(a) for a in args], dict(kwargs), True))
            return lambda g: g * float(CODE[rid]) * onp.ones(argnum + 1)
        defvjp_argnum(p, maker)
    else:
        rid = rng.randrange(10)
        makers = [("r", rid)]

        def maker(argnums, ans, args, kwargs):
            log.append((rid, float(ans) if not isbox(ans) else "box", [isbox(a) for a in args], dict(kwargs), True))
            return lambda g: tuple(g * float(CODE[rid]) * onp.ones(a + 1) for a in argnums)
        defvjp_argnums(p, maker)
    k = rng.randint(1, n)
    diff = sorted(rng.sample(range(n), k))
    g = float(rng.choice([1, 2, -1]))

    def f(t):
        args = list(xs)
        for i, pos in enumerate(diff):
            args[pos] = t[i]
        return p(*args, **kw)

    plain = float(f(tuple(xs[i] for i in diff)))
    contract_ok = True
    try:
        vjp, val = make_vjp(f)(tuple(xs[i] for i in diff))
        raw = vjp(g)
        res = []
        for pos, v in zip(diff, raw):
            va = onp.asarray(v)
            # each cotangent lives in the space of the argument it is routed to
            if va.shape != (pos + 1,) or not onp.all(va == va.ravel()[0]):
                contract_ok = False
            res.append(float(va.ravel()[0]))
        if float(val) != plain:
            contract_ok = False
        for entry in log:
            # the rule sees the primitive's output, the original argument values unboxed, and the kwargs
            if entry[1] != plain or any(entry[2]) or entry[3] != kw or not entry[4]:
                contract_ok = False
    except Exception as ex:
        res = None
        if not isinstance(ex, (NotImplementedError, KeyError)):
            contract_ok = False
    return {"api": api, "n": n, "argnums_kw": argnums_kw, "makers": makers, "diff": diff, "g": int(g),
            "impl": None if res is None else [int(v) for v in res], "contract_ok": contract_ok}


def two_level_case(rng):
    """position a differentiated by an outer grad, position b by an inner one"""
    n = rng.randint(2, 4)
    p = new_prim()
    seen = []
    rids = [rng.randrange(10) for _ in range(n)]

    def rule(pos):
        def maker(ans, *args, **kwargs):
            seen.append((pos, [isbox(a) for a in args], isbox(ans)))
            return lambda g: g * float(CODE[rids[pos]])
        return maker
    defvjp(p, *[rule(i) for i in range(n)])
    a, b = rng.sample(range(n), 2)
    xs = [float(rng.choice([1, 2, 3])) for _ in range(n)]

    def outer(u):
        def inner(v):
            args = list(xs)
            args[a], args[b] = u, v
            return p(*args)
        return grad(inner)(xs[b]) + 0.0 * u
    try:
        r = grad(outer)(xs[a])
        # the inner level's rule ran with only position b unboxed-at-its-level: position a is still a box
        # of the outer trace; nothing else is boxed; the outer derivative of the constant code is 0
        inner_calls = [s for s in seen if s[0] == b]
        ok = (float(r) == 0.0 and len(inner_calls) == 1
              and inner_calls[0][1] == [i == a for i in range(n)] and inner_calls[0][2])
        return {"two_level": True, "n": n, "a": a, "b": b, "ok": bool(ok), "seen": seen[:4], "r": float(r)}
    except Exception as ex:
        return {"two_level": True, "n": n, "a": a, "b": b, "ok": False, "error": repr(ex)}


def jvp_case(rng):
    n = rng.randint(1, 5)
    p = new_prim()
    xs = [float(rng.choice([1, 2, 3, -1, -2])) for _ in range(n)]
    linear = rng.random() < 0.2
    entries = []
    if linear:
        def_linear(p)
    else:
        m = rng.randint(0, n)
        kinds = [rng.choice(["r", "r", "same", "none"]) for _ in range(m)]
        fns = []
        for i, kd in enumerate(kinds):
            if kd == "r":
                rid = rng.randrange(10)
                entries.append([i, ["r", rid]])
                fns.append((lambda rid: lambda g, ans, *args, **kw: g * float(CODE[rid]))(rid))
            elif kd == "same":
                entries.append([i, ["same"]])
                fns.append("same")
            else:
                entries.append([i, ["none"]])
                fns.append(None)
        if m and rng.random() < 0.4:
            perm = rng.sample(range(n), m)
            for e_, pos in zip(entries, perm):
                e_[0] = pos
            defjvp(p, *fns, argnums=spell_argnums(rng, perm))
        else:
            defjvp(p, *fns)
    k = rng.randint(1, n)
    diff = sorted(rng.sample(range(n), k))
    ts = [float(rng.choice([1, 2, 3, -1])) for _ in diff]

    def f(t):
        args = list(xs)
        for i, pos in enumerate(diff):
            args[pos] = t[i]
        return p(*args)
    try:
        val, tan = make_jvp(f)(tuple(xs[i] for i in diff))(tuple(ts))
        impl = int(float(tan))
    except Exception:
        impl = None
    return {"jvp": True, "entries": entries, "linear": linear, "xs": [int(x) for x in xs], "diff": diff,
            "ts": [int(t) for t in ts], "impl": impl}


def _same(a, b):
    """equal; beyond 2**50 integer arithmetic in float64 is no longer exact and the two evaluation orders may round
    differently in the last place - there (only) a relative difference of 1e-12 is accepted"""
    a, b = float(a), float(b)
    if a == b:
        return True
    return max(abs(a), abs(b)) >= 2.0 ** 50 and abs(a - b) <= 1e-12 * max(abs(a), abs(b))


def checkpoint_case(rng):
    """checkpoint(f) has the value and the reverse-mode derivatives (orders 1..3) of f"""
    body = impl_l2.gen(rng, rng.randint(2, 4), 1, {"maxd": 0})
    f = lambda x: impl_l2.ev(body, [x])  # noqa: E731
    cf = checkpoint(f)
    x = float(rng.choice([-2, -1, 1, 2]))
    try:
        base = [f(x), grad(f)(x), grad(grad(f))(x), grad(grad(grad(f)))(x)]
        chk = [cf(x), grad(cf)(x), grad(grad(cf))(x), grad(grad(grad(cf)))(x)]
        mixed = _same(grad(lambda y: cf(y) * f(y))(x), grad(lambda y: f(y) * f(y))(x))
        ok = all(_same(a, b) for a, b in zip(base, chk)) and bool(mixed)
        return {"checkpoint": True, "body": body, "x": x, "ok": ok, "base": [float(v) for v in base],
                "chk": [float(v) for v in chk]}
    except OverflowError:
        return None
    except Exception as ex:
        return {"checkpoint": True, "body": body, "x": x, "ok": False, "error": repr(ex)}


def partial_notrace_cases(rng):
    """a primitive registered as not traced for ONE node type only, with a rule for the other mode: the other mode's
    enclosing trace still differentiates it; re-registration of rules replaces the table"""
    from autograd.extend import register_notrace, VJPNode, JVPNode
    out = []
    x0 = float(rng.choice([1, 2, 3]))

    def rec(name, ok, detail=None):
        out.append({"checkpoint": False, "ok": bool(ok), "case": name, "detail": detail, "site": {"oracle": "extension", "configuration": name}})
    try:
        @primitive
        def gate(x):
            return x * x * x
        defjvp(gate, lambda g, ans, x: g * 3.0 * x * x)
        register_notrace(VJPNode, gate)            # reverse mode treats gate(...) as a constant
        h = lambda x: grad(lambda y: y * gate(x * y))(1.0)     # = gate(x) for the inner reverse pass  # noqa: E731
        val, tan = make_jvp(h)(x0)(1.0)
        rec("notrace for VJPNode only, forward over reverse", float(val) == x0 ** 3 and float(tan) == 3.0 * x0 * x0, [float(val), float(tan)])
        val2, tan2 = make_jvp(lambda x: gate(x) * x)(x0)(1.0)
        rec("notrace for VJPNode only, plain forward", float(tan2) == 4.0 * x0 ** 3, float(tan2))
        rec("notrace for VJPNode only, plain reverse is constant", float(grad(lambda x: gate(x) * x)(x0)) == x0 ** 3)

        @primitive
        def gate2(x):
            return x * x * x
        defvjp(gate2, lambda ans, x: lambda g: g * 3.0 * x * x)
        register_notrace(JVPNode, gate2)           # forward mode treats gate2(...) as a constant
        h2 = lambda x: make_jvp(lambda y: y * gate2(x * y))(1.0)(1.0)[1]   # = gate2(x)  # noqa: E731
        rec("notrace for JVPNode only, reverse over forward", float(grad(h2)(x0)) == 3.0 * x0 * x0, float(grad(h2)(x0)))
    except Exception as ex:
        rec("partial notrace registration", False, repr(ex))
    # re-registration replaces the rule table: a position that has no rule any more raises
    try:
        @primitive
        def two(a, b):
            return a * b
        defvjp(two, lambda ans, a, b: lambda g: g * b, lambda ans, a, b: lambda g: g * a * 100.0)
        defvjp(two, lambda ans, a, b: lambda g: g * b)                     # second registration: position 0 only
        r0 = float(grad(two, 0)(2.0, 3.0))
        try:
            r1 = grad(two, 1)(2.0, 3.0)
            rec("re-registration with fewer positions: the dropped position raises", False, "returned %r" % (r1,))
        except NotImplementedError:
            rec("re-registration with fewer positions: the dropped position raises", r0 == 3.0)
        defvjp(two, None, lambda ans, a, b: lambda g: g * a)               # third: position 0 explicitly None
        rec("re-registration: None replaces an earlier rule", float(grad(two, 0)(2.0, 3.0)) == 0.0 and float(grad(two, 1)(2.0, 3.0)) == 2.0)
        defjvp(two, lambda g, ans, a, b: g * b, lambda g, ans, a, b: g * a * 100.0)
        defjvp(two, lambda g, ans, a, b: g * b)
        try:
            r = make_jvp(lambda b: two(2.0, b))(3.0)(1.0)[1]
            rec("re-registration of forward rules with fewer positions: the dropped position raises", False, "returned %r" % (r,))
        except (NotImplementedError, KeyError):
            rec("re-registration of forward rules with fewer positions: the dropped position raises", True)
    except Exception as ex:
        rec("re-registration", False, repr(ex))
    return out


def checkpoint_misc_cases(rng):
    out = []

    def rec(name, ok, detail=None):
        out.append({"checkpoint": True, "ok": bool(ok), "case": name, "detail": detail, "site": {"oracle": "checkpoint", "configuration": name}})
    x = float(rng.choice([1, 2, 3]))
    try:
        # positional arguments that are not differentiable values (an int count, a bool, None, a string)
        def poly(z, n, flag, tag, extra=None):
            r = z
            for _ in range(n):
                r = r * z
            return r * (2.0 if flag else 1.0) + (0.0 if extra is None else extra) + (1.0 if tag == "t" else 0.0)
        cpoly = checkpoint(poly)
        for args in ((3, True, "t", None), (1, False, "u", 2.0), (0, True, "t", None)):
            want = [float(poly(x, *args)), float(grad(poly)(x, *args)), float(grad(grad(poly))(x, *args))]
            got = [float(cpoly(x, *args)), float(grad(cpoly)(x, *args)), float(grad(grad(cpoly))(x, *args))]
            rec("non-differentiable positional arguments %r" % (args,), got == want, [got, want])
    except Exception as ex:
        rec("non-differentiable positional arguments", False, repr(ex))
    try:
        # a checkpointed function that picks up a traced value from a closure: the plain function's derivative, or a refusal
        xs_ = onp.array([1.0, 2.0])
        for nm, mk in (("same level", lambda fn: grad(lambda w: anp.sum(fn(lambda h: anp.tanh(h * w))(w * xs_)))(0.5)),
                       ("outer level", lambda fn: grad(lambda w: grad(lambda v: anp.sum(fn(lambda h: anp.tanh(h * w))(v * xs_)))(0.25))(0.5)),
                       ("same level, second order", lambda fn: grad(grad(lambda w: anp.sum(fn(lambda h: h * h * w)(w * xs_))))(0.5))):
            want = mk(lambda f_: f_)
            try:
                got = mk(checkpoint)
                rec("closure over a traced value, " + nm, (not isbox(got)) and abs(float(got) - float(want)) < 1e-12, [repr(got), float(want)])
            except TypeError:
                rec("closure over a traced value, " + nm, True, "refused")
    except Exception as ex:
        rec("closure over a traced value", False, repr(ex))
    try:
        # second derivatives where the first-order cotangent reaching the checkpointed function is exactly zero
        f = lambda z: z * z * z + 2.0 * z  # noqa: E731
        cf = checkpoint(f)
        fit = lambda w, fn: 0.5 * (fn(w) - f(x)) ** 2      # noqa: E731   zero residual at w = x
        want = float(grad(grad(lambda w: fit(w, f)))(x))
        got = float(grad(grad(lambda w: fit(w, cf)))(x))
        rec("second derivative at a zero-residual point", got == want, [got, want])
        from autograd import hessian as _h
        xv = onp.array([x, x + 1.0])
        fv = lambda z: anp.sum(z * z * z)  # noqa: E731
        cfv = checkpoint(fv)
        fitv = lambda w, fn: 0.5 * (fn(w) - fv(xv)) ** 2   # noqa: E731
        rec("hessian at a zero-residual point", onp.all(_h(lambda w: fitv(w, cfv))(xv) == _h(lambda w: fitv(w, fv))(xv)))
        rec("second derivative with the first-order cotangent multiplied by a traced zero",
            float(grad(lambda w: grad(lambda u: cf(u) * (w - x))(w))(x)) == float(grad(lambda w: grad(lambda u: f(u) * (w - x))(w))(x)))
    except Exception as ex:
        rec("second derivative at a zero-residual point", False, repr(ex))
    return out


def checkpoint_kw_case(rng):
    """a traced value handed to a checkpointed function BY KEYWORD: same value and derivative as the plain function, or a
    loud refusal"""
    f = lambda a, s=1.0: a * s * s + a  # noqa: E731
    cf = checkpoint(f)
    x = float(rng.choice([-2, -1, 2, 3]))
    site = {"oracle": "checkpoint", "configuration": "traced value passed by keyword"}
    try:
        want = float(grad(lambda t: f(t, s=t))(x))
        try:
            got = grad(lambda t: cf(t, s=t))(x)
        except Exception:
            return {"checkpoint": True, "x": x, "ok": True, "site": site, "raised": True}
        ok = (not isbox(got)) and float(got) == want
        return {"checkpoint": True, "x": x, "ok": bool(ok), "site": site, "got": repr(got), "want": want}
    except Exception as ex:
        return {"checkpoint": True, "x": x, "ok": False, "site": site, "error": repr(ex)}


def checkpoint_case_nary(rng):
    """checkpoint of a function of 2..3 positional arguments (+ a keyword): value, every first partial, every
    (mixed) second partial by position, by closure nesting and along a curve t -> cf(t, t*t)"""
    n = rng.randint(2, 3)
    body = impl_l2.gen(rng, rng.randint(3, 4), n, {"maxd": 0})
    if not all(str(["var", i]) in str(body) for i in range(n)):
        body = ["app2", "mul", body, ["app2", "mul", ["var", 0], ["app2", "mul", ["var", 1], ["var", n - 1]]]]
    f = lambda *xs, scale=1.0: impl_l2.ev(body, list(xs)) * scale  # noqa: E731
    cf = checkpoint(f)
    xs = [float(rng.choice([-2, -1, 1, 2])) for _ in range(n)]
    kw = {"scale": 2.0} if rng.random() < 0.5 else {}
    try:
        base, chk = [f(*xs, **kw)], [cf(*xs, **kw)]
        for i in range(n):
            base.append(grad(f, i)(*xs, **kw))
            chk.append(grad(cf, i)(*xs, **kw))
            for j in range(n):
                base.append(grad(grad(f, i), j)(*xs, **kw))
                chk.append(grad(grad(cf, i), j)(*xs, **kw))
        # closure nesting: the outer variable reaches cf through a position the inner grad does not differentiate
        rest = xs[2:]
        base.append(grad(lambda x: grad(lambda y: f(x, y, *rest))(xs[1]))(xs[0]))
        chk.append(grad(lambda x: grad(lambda y: cf(x, y, *rest))(xs[1]))(xs[0]))
        base.append(grad(grad(lambda t: f(t, t * t, *rest)))(xs[0]))
        chk.append(grad(grad(lambda t: cf(t, t * t, *rest)))(xs[0]))
        # forward over reverse through the checkpoint: checkpoint has no JVP, so this may raise (loud); if it
        # returns, it must be right
        try:
            v = make_jvp(lambda x: grad(cf, 1)(x, *xs[1:]))(xs[0])(1.0)[1]
            base.append(make_jvp(lambda x: grad(f, 1)(x, *xs[1:]))(xs[0])(1.0)[1])
            chk.append(v)
        except NotImplementedError:
            pass
        ok = all(_same(a, b) for a, b in zip(base, chk))
        return {"checkpoint": True, "body": body, "x": xs, "ok": ok, "base": [float(v) for v in base],
                "chk": [float(v) for v in chk]}
    except OverflowError:
        return None
    except Exception as ex:
        return {"checkpoint": True, "body": body, "x": xs, "ok": False, "error": repr(ex)}


def none_rule_cases(rng):
    """an argument registered as non-differentiable (rule None) receives ZERO - of ITS OWN space, whatever the shape of
    the primitive's output - alone and next to other contributions, in both modes"""
    out = []

    def rec(name, ok, detail=None):
        out.append({"checkpoint": False, "ok": bool(ok), "case": name, "detail": detail, "site": {"oracle": "extension", "configuration": name}})

    @primitive
    def scaled_sum(w, x):
        return anp.sum(x) * 2.0 + 0.0 * w[0]
    defvjp(scaled_sum, None, lambda ans, w, x: lambda g: g * 2.0 * anp.ones_like(x))
    defjvp(scaled_sum, None, lambda g, ans, w, x: anp.sum(g) * 2.0)

    @primitive
    def widen(c, x):
        return x * onp.ones((3, 4)) + 0.0 * c
    defvjp(widen, None, lambda ans, c, x: lambda g: g)
    w, x = onp.array([1.0, 2.0, 3.0]), onp.array([4.0, 5.0])
    c31 = onp.ones((3, 1))
    x34 = onp.arange(12.0).reshape(3, 4)
    try:
        g = grad(lambda w_: scaled_sum(w_, x))(w)
        rec("None rule, scalar output, vector argument", onp.shape(g) == (3,) and bool(onp.all(g == 0)), repr(g))
        g2 = grad(lambda w_: scaled_sum(w_, x) + anp.sum(w_ ** 2))(w)
        rec("None rule next to another contribution", onp.shape(g2) == (3,) and bool(onp.all(g2 == 2 * w)), repr(g2))
        g3 = grad(lambda c: anp.sum(widen(c, x34) * x34))(c31)
        rec("None rule, (3,4) output, (3,1) argument", onp.shape(g3) == (3, 1) and bool(onp.all(g3 == 0)), repr(g3))
        g4 = grad(lambda c: anp.sum(widen(c, x34)) + anp.sum(c * 3.0))(c31)
        rec("None rule, broadcast argument next to another contribution", onp.shape(g4) == (3, 1) and bool(onp.all(g4 == 3.0)), repr(g4))
        t = make_jvp(lambda w_: scaled_sum(w_, x))(w)(onp.ones(3))[1]
        rec("None forward rule: zero tangent in the OUTPUT's space", onp.shape(t) == () and float(t) == 0.0, repr(t))
        both = grad(lambda a: scaled_sum(a * w, a * x))(2.0)
        rec("None rule and a real rule in one call", float(both) == float(2.0 * onp.sum(x)), repr(both))
    except Exception as ex:
        rec("None rule", False, repr(ex))
    return out


def main():
    cfg = json.load(sys.stdin)
    rng = random.Random(cfg["seed"])
    out = {"vjp": [], "jvp": [], "oracle": [], "dist": {}}
    for i in range(cfg["n"]):
        c = vjp_case(rng)
        out["vjp"].append(c)
        k = "api=%s arity=%d" % (c["api"], c["n"])
        out["dist"][k] = out["dist"].get(k, 0) + 1
        out["jvp"].append(jvp_case(rng))
    for i in range(cfg["n_oracle"]):
        out["oracle"].append(two_level_case(rng))
        for c in (checkpoint_case(rng), checkpoint_case_nary(rng)) + ((checkpoint_kw_case(rng),) + tuple(partial_notrace_cases(rng)) + tuple(checkpoint_misc_cases(rng)) + tuple(none_rule_cases(rng)) if i == 0 else ()):
            if c:
                out["oracle"].append(c)
    print(json.dumps(out))


if __name__ == "__main__":
    main()
