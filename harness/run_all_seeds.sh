#!/bin/sh
# Re-run every archived seeded change against the check of its property:
#   harness/run_all_seeds.sh [name ...]      (default: all of /verif/seeded/*)
# Applies the patch to /repo, runs ./check <property>, expects a VIOLATION line, reverts.
cd /verif || exit 2
[ -z "$(git -C /repo status --porcelain)" ] || { echo "/repo is not clean"; exit 2; }
names="$*"
[ -n "$names" ] || names=$(ls seeded | grep -v README)
miss=0
for n in $names; do
  d=/verif/seeded/$n
  [ -f "$d/patch.diff" ] || continue
  if grep -q '"retired"' "$d/meta.json"; then echo "$n: retired (no longer a defect)"; continue; fi
  pid=${n%%-*}
  git -C /repo apply "$d/patch.diff" || { echo "$n: PATCH DOES NOT APPLY"; miss=1; continue; }
  out=$(timeout 1500 ./check "$pid" 2>&1 | grep -c "^VIOLATION property=$pid")
  git -C /repo checkout -- .
  if [ "$out" -ge 1 ]; then echo "$n: caught by $pid"; else echo "$n: NOT caught by $pid"; miss=1; fi
done
# leave evidence files describing the unchanged tree
exit $miss
