"""Further rows of the rule table (imported by impl_rules.cases): aliasing of arguments, special values at which a
rule body that branches on a value would go wrong, and Python-level operand types."""
import numpy as onp

import sys
R = sys.modules.get("__main__") if hasattr(sys.modules.get("__main__"), "Case") else __import__("impl_rules")


def extra_cases(rng, tier):
    out = []

    def add(prim, tag, f, args, diff, exact, modes=("rev", "fwd")):
        out.append(R.Case(prim, tag, f, args, diff, exact, modes=modes))

    # ---- (0) points ON a kink of a piecewise function: there is no Jacobian to compare with, but wherever both modes answer
    #      they answer with one and the same linear map (C04 is not restricted to regular points) ----
    def kink(prim, tag, f, args, diff=(0,)):
        c = R.Case(prim, tag + " [on the kink: pairing only]", f, args, list(diff), False)
        c.pairing_only = True
        out.append(c)
    kx = onp.array([[-0.5, 1.0, 0.25], [2.0, -0.5, 1.0]])
    kink("clip", "entries equal to a bound", (lambda m, z: m.clip(z, -0.5, 1.0)), [kx])
    kink("clip", "entries equal to the only bound", (lambda m, z: m.clip(z, None, 1.0)), [kx])
    kink("abs", "entries equal to 0", (lambda m, z: m.abs(z)), [onp.array([0.0, 1.5, -2.0, 0.0])])
    kink("fabs", "entries equal to 0", (lambda m, z: m.fabs(z)), [onp.array([0.0, 1.5, -2.0, 0.0])])
    for name in ("maximum", "minimum", "fmax", "fmin"):
        kink(name, "ties between the operands", (lambda m, a, b, name=name: getattr(m, name)(a, b)),
             [onp.array([1.0, 2.0, 3.0, -1.0]), onp.array([1.0, 5.0, 3.0, -4.0])], (0, 1))
        kink(name, "ties with a scalar", (lambda m, a, name=name: getattr(m, name)(a, 1.0)), [kx])
    for name in ("max", "min", "amax", "amin"):
        for axn, kw in (("all", {}), ("axis=1", {"axis": 1}), ("axis=0 keepdims", {"axis": 0, "keepdims": True})):
            kink(name, "ties %s" % axn, (lambda m, z, name=name, kw=kw: getattr(m, name)(z, **kw)), [kx])
    kink("where", "threshold met exactly", (lambda m, z: m.where(z > 1.0, z * z, 3.0 * z)), [kx])
    kink("sort", "ties", (lambda m, z: m.sort(z, axis=None)), [kx])
    ties1 = onp.array([2.0, 1.0, 2.0, 1.0, 2.0, 0.5, 1.0])
    for kd in ("quicksort", "stable", "mergesort", "heapsort"):
        kink("sort", "ties kind=%s" % kd, (lambda m, z, kd=kd: m.sort(z, kind=kd)), [ties1])
        kink("sort", "ties kind=%s axis=-1 of a vector, times weights" % kd, (lambda m, z, kd=kd: m.sort(z, axis=-1, kind=kd) * onp.arange(1.0, 8.0)), [ties1])
    kink("partition", "ties", (lambda m, z: m.partition(z, 3)), [ties1])
    kink("median", "ties", (lambda m, z: m.median(z)), [ties1])
    for name in ("mod", "remainder", "fmod"):
        kink(name, "exact multiples", (lambda m, a, b, name=name: getattr(m, name)(a, b)),
             [onp.array([3.0, -4.5, 6.0, 2.5]), onp.array([1.5, 1.5, -2.0, 2.5])], (0, 1))
    kink("sign", "at 0", (lambda m, z: m.sign(z) * z), [onp.array([0.0, 2.0, -1.0])])
    # ---- (0') data whose mean dwarfs its spread (time stamps, raw counts): the two modes still pair to rounding error;
    #      the finite-difference oracle is useless at this conditioning, so pairing only ----
    def paired(prim, tag, f, args, diff=(0,)):
        c = R.Case(prim, tag + " [pairing only]", f, args, list(diff), False)
        c.pairing_only = True
        out.append(c)
    for off in (1.0e7, -3.0e8):
        data = off + R.distinct(rng, (3, 4))
        for name in ("var", "std", "mean", "sum", "prod", "cumsum", "ptp" if hasattr(onp, "ptp") else "sum"):
            for axn, kw in (("all", {}), ("axis=1", {"axis": 1}), ("axis=0 keepdims", {"axis": 0, "keepdims": True})):
                paired(name, "offset %g %s" % (off, axn), (lambda m, z, name=name, kw=kw: getattr(m, name)(z, **kw)), [data])
        paired("var", "offset %g ddof=1" % off, (lambda m, z: m.var(z, axis=0, ddof=1)), [data])
        paired("linalg.norm", "offset %g" % off, (lambda m, z: m.linalg.norm(z, axis=1)), [data])
        paired("logsumexp-like", "offset %g" % off, (lambda m, z: m.log(m.sum(m.exp(z - m.max(z))))), [data])
    # ---- (0'') the axis given as a NumPy integer scalar (what argmax, shape arithmetic and loops over np.arange hand out) ----
    d234 = R.positive(rng, (2, 3, 4))
    for name in ("sum", "mean", "var", "std", "prod", "max", "min", "cumsum", "cumprod", "sort", "flip", "expand_dims", "roll",
                 "logsumexp-free softmax", "repeat", "concatenate", "stack", "squeeze", "swapaxes", "moveaxis", "diff", "linalg.norm", "take"):
        for ax in (onp.int64(1), onp.intp(0), onp.int32(-1), onp.int64(-2)):
            if name == "logsumexp-free softmax":
                f = lambda m, z, ax=ax: m.exp(z) / m.sum(m.exp(z), axis=ax, keepdims=True)                   # noqa: E731
            elif name == "roll":
                f = lambda m, z, ax=ax: m.roll(z, 1, axis=ax)                                                  # noqa: E731
            elif name == "repeat":
                f = lambda m, z, ax=ax: m.repeat(z, 2, axis=ax)                                                # noqa: E731
            elif name in ("concatenate", "stack"):
                f = lambda m, z, ax=ax, name=name: getattr(m, name)([z, 2.0 * z], axis=ax)                     # noqa: E731
            elif name == "squeeze":
                f = lambda m, z, ax=ax: m.squeeze(m.sum(z, axis=int(ax), keepdims=True), axis=ax)              # noqa: E731
            elif name == "swapaxes":
                f = lambda m, z, ax=ax: m.swapaxes(z, ax, onp.int64(0))                                        # noqa: E731
            elif name == "moveaxis":
                f = lambda m, z, ax=ax: m.moveaxis(z, ax, onp.int64(0))                                        # noqa: E731
            elif name == "linalg.norm":
                f = lambda m, z, ax=ax: m.linalg.norm(z, axis=ax)                                              # noqa: E731
            elif name == "take":
                f = lambda m, z, ax=ax: m.take(z, onp.array([1, 0, 1]), axis=ax)                               # noqa: E731
            elif name == "expand_dims":
                f = lambda m, z, ax=ax: m.expand_dims(z, ax)                                                   # noqa: E731
            else:
                f = lambda m, z, ax=ax, name=name: getattr(m, name)(z, axis=ax)                                # noqa: E731
            add(name, "axis=np.%s(%d)" % (type(ax).__name__, int(ax)), f, [d234], [0], False)
    # ---- (0d) zero-size arrays and length-1 axes stretched to length 0: shapes are all there is to get right ----
    for s1, s2 in (((1, 3), (0, 3)), ((0, 3), (3,)), ((0,), ()), ((2, 0), (1,)), ((1,), (0,)), ((0, 1), (1, 4)), ((2, 1, 0), (3, 1))):
        for name in ("add", "subtract", "multiply", "divide", "mod", "remainder", "maximum", "power", "arctan2", "logaddexp", "hypot"):
            add(name, "zero-size shapes=%s,%s" % (s1, s2), (lambda m, a, b, name=name: getattr(m, name)(a, b)),
                [onp.ones(s1) * 1.5, onp.ones(s2) * 2.5], [0, 1], False)
    for sh in ((0,), (0, 3), (2, 0), (1, 0, 2)):
        z0 = onp.ones(sh)
        table0 = {"reshape-1": lambda m, z: m.reshape(z, (-1,)), "transpose": lambda m, z: m.transpose(z), "ravel": lambda m, z: m.ravel(z),
                  "flip": lambda m, z: m.flip(z, 0), "squeeze-none": lambda m, z: m.squeeze(z), "concatenate-self": lambda m, z: m.concatenate([z, z], axis=0),
                  "sum": lambda m, z: m.sum(z, axis=0), "mean": lambda m, z: m.sum(z) + 0.0, "prod": lambda m, z: m.prod(z, axis=-1),
                  "cumsum": lambda m, z: m.cumsum(z, axis=0), "sort": lambda m, z: m.sort(z.ravel()), "exp": lambda m, z: m.exp(z),
                  "negative": lambda m, z: -z}
        for name, f in table0.items():
            add(name.split("-")[0], "zero-size input %s" % (sh,), f, [z0], [0], False)
    add("dot", "(2,0) x (0,3)", (lambda m, a, b: m.dot(a, b)), [onp.ones((2, 0)), onp.ones((0, 3))], [0, 1], False)
    add("matmul", "(0,2) x (2,3)", (lambda m, a, b: m.matmul(a, b)), [onp.ones((0, 2)), onp.ones((2, 3))], [0, 1], False)
    add("getitem", "empty slice", (lambda m, a: a[3:1] * 2.0), [onp.arange(4.0)], [0], False)
    add("getitem", "empty integer array", (lambda m, a: a[onp.array([], dtype=int)]), [onp.arange(4.0)], [0], False)
    add("where", "zero-size", (lambda m, a, b: m.where(onp.zeros((0, 2), bool), a, b)), [onp.ones((1, 2)), onp.ones((0, 2))], [0, 1], False)
    # ---- (0e) reflected operators and left operands of every Python / NumPy kind; built-ins on traced arrays ----
    pz = R.positive(rng, (2, 3))
    carr = R.positive(rng, (2, 3), 0.7, 1.9) if False else onp.array([[1.5, 0.75, 2.25], [0.5, 1.25, 1.75]])
    lefts = (("python float", 2.5), ("python int", 3), ("ndarray", carr), ("ndarray (3,)", onp.array([1.5, 0.5, 2.0])), ("numpy float64 scalar", onp.float64(2.5)),
             ("0-d array", onp.array(2.5)), ("list", [1.5, 0.5, 2.0]))
    rops = {"c - z": lambda c, z: c - z, "c / z": lambda c, z: c / z, "c ** z": lambda c, z: c ** z, "c + z": lambda c, z: c + z,
            "c * z": lambda c, z: c * z, "c % z": lambda c, z: c % z}
    for ln, cval in lefts:
        for on, of in rops.items():
            if ln == "list" and on in ("c + z", "c * z"):
                continue                              # list + array / list * array are list operations when the list comes first
            if on == "c % z":
                # (mod jumps wherever c / z is an integer: fixed operands well away from that)
                if ln not in ("python float", "numpy float64 scalar", "0-d array"):
                    continue
                add("reflected " + on, "left operand: " + ln, (lambda m, z, of=of, cval=cval: of(cval, z)),
                    [onp.array([[0.7, 0.9, 1.1], [1.3, 0.6, 0.8]])], [0], False)
                continue
            add("reflected " + on, "left operand: " + ln, (lambda m, z, of=of, cval=cval: of(cval, z)), [pz], [0], False)
    add("reflected @", "ndarray (2,2) @ z", (lambda m, z: onp.array([[1.0, 2.0], [0.5, -1.0]]) @ z), [pz], [0], False)
    add("reflected @", "list @ z", (lambda m, z: [[1.0, 2.0], [0.5, -1.0]] @ z), [pz], [0], False)
    add("builtin", "abs(z)", (lambda m, z: abs(z - 1.0)), [pz], [0], False)
    add("builtin", "pow(z, 3)", (lambda m, z: pow(z, 3)), [pz], [0], False)
    add("builtin", "pow(2.0, z)", (lambda m, z: pow(2.0, z)), [pz], [0], False)
    add("builtin", "sum(rows)", (lambda m, z: sum(row * (i + 1.0) for i, row in enumerate(z))), [pz], [0], False)
    add("builtin", "z ** 2 (int exponent)", (lambda m, z: z ** 2), [pz], [0], False)
    add("builtin", "z ** -1", (lambda m, z: z ** -1), [pz], [0], False)
    add("builtin", "z ** 0.5", (lambda m, z: z ** 0.5), [pz], [0], False)
    add("builtin", "divmod-free floor: z - z % 1", (lambda m, z: z - z % 1.0 + z), [R.half_ints(rng, (2, 3))], [0], False)
    add("builtin", "z // 1 * z", (lambda m, z: (z // 1.0) * z), [R.half_ints(rng, (2, 3))], [0], False)
    # ---- (0f) stacked (batched) matrices and 1-D right-hand sides in linalg ----
    def spd_stack(k, n):
        mats = []
        for _ in range(k):
            a_ = R.distinct(rng, (n, n))
            mats.append(a_ @ a_.T + n * onp.eye(n))
        return onp.stack(mats)
    S2 = spd_stack(2, 3)
    for name, f in (("linalg.det", lambda m, a: m.linalg.det(a)), ("linalg.slogdet", lambda m, a: m.linalg.slogdet(a)[1]),
                    ("linalg.inv", lambda m, a: m.linalg.inv(a)), ("linalg.cholesky", lambda m, a: m.linalg.cholesky((a + m.swapaxes(a, -1, -2)) / 2)),
                    ("linalg.eigh", lambda m, a: m.linalg.eigh((a + m.swapaxes(a, -1, -2)) / 2)[0]),
                    ("linalg.eigh", lambda m, a: (lambda w, v: m.matmul(v * onp.array([1.5, -0.5, 2.0]), m.swapaxes(v, -1, -2)))(*m.linalg.eigh((a + m.swapaxes(a, -1, -2)) / 2))),
                    ("linalg.svd", lambda m, a: m.linalg.svd(a, compute_uv=False)),
                    ("linalg.svd", lambda m, a: (lambda u, s_, vh: m.matmul(u * onp.array([1.5, -0.5, 2.0]), vh))(*m.linalg.svd(a, full_matrices=False))),
                    ("linalg.pinv", lambda m, a: m.linalg.pinv(a)), ("linalg.norm", lambda m, a: m.linalg.norm(a, "nuc", axis=(-2, -1))),
                    ("linalg.qr", lambda m, a: (lambda q, r: m.matmul(q, r) * 2.0 + m.abs(r[..., 0, 0])[..., None, None])(*m.linalg.qr(a))),
                    ("linalg.eig", lambda m, a: m.real(m.linalg.eig(a)[0]))):
        add(name, "stack of two 3x3", f, [S2], [0], False)
        add(name, "single 3x3", f, [S2[0]], [0], False)
    B1 = R.distinct(rng, (3,))
    add("linalg.solve", "stack of matrices, matrix right-hand sides", (lambda m, a, b: m.linalg.solve(a, b)), [S2, R.distinct(rng, (2, 3, 2))], [0, 1], False)
    add("linalg.solve", "stack of matrices, one shared matrix right-hand side", (lambda m, a, b: m.linalg.solve(a, b)), [S2, R.distinct(rng, (3, 2))], [0, 1], False)
    add("linalg.solve", "single matrix, 1-D right-hand side", (lambda m, a, b: m.linalg.solve(a, b)), [S2[0], B1], [0, 1], False)
    add("linalg.solve", "single matrix, stack of right-hand sides", (lambda m, a, b: m.linalg.solve(a, b)), [S2[0], R.distinct(rng, (2, 3, 2))], [0, 1], False)
    add("linalg.inv", "1x1", (lambda m, a: m.linalg.inv(a)), [onp.array([[2.5]])], [0], False)
    add("linalg.det", "1x1", (lambda m, a: m.linalg.det(a)), [onp.array([[2.5]])], [0], False)
    add("linalg.matrix_power", "cube", (lambda m, a: m.linalg.matrix_power(a, 3)), [S2[0] / 4.0], [0], False)
    add("linalg.tensorinv-free", "trace of inverse", (lambda m, a: m.trace(m.linalg.inv(a))), [S2[0]], [0], False)
    # ---- (0g) rarely visited configurations ----
    i23, i32, i3, i33 = R.iarr(rng, (2, 3)), R.iarr(rng, (3, 2)), R.iarr(rng, (3,)), R.iarr(rng, (3, 3))
    for sub, ops_ in (("ij,jk,kl->il", [i23, i32, R.iarr(rng, (2, 2))]), ("i,i,i->", [i3, R.iarr(rng, (3,)), R.iarr(rng, (3,))]),
                      ("ij,j,i->", [i23, i3, R.iarr(rng, (2,))]), ("ii->i", [i33]), ("ii->", [i33]), ("ij->ji", [i23]), ("ij->", [i23]),
                      ("ijk->kj", [R.iarr(rng, (2, 3, 2))]), ("ij,ij,ij->ij", [i23, R.iarr(rng, (2, 3)), R.iarr(rng, (2, 3))]),
                      ("...i,...i->...", [i23, R.iarr(rng, (2, 3))]), ("i...,i->...", [i32, R.iarr(rng, (3,))]), ("ij,kj->ikj", [i23, R.iarr(rng, (2, 3))])):
        add("einsum", "'%s'" % sub, (lambda m, *a, sub=sub: m.einsum(sub, *a)), ops_, list(range(len(ops_))), True)
    for off, a1, a2 in ((0, 0, 1), (1, 0, 1), (-1, 1, 0), (0, 0, 2), (1, -1, 0), (0, 1, 2)):
        add("trace", "offset=%d axis1=%d axis2=%d" % (off, a1, a2), (lambda m, z, off=off, a1=a1, a2=a2: m.trace(z, off, a1, a2)), [R.iarr(rng, (2, 3, 2))], [0], True)
    c33a, c33b = R.iarr(rng, (3, 3)), R.iarr(rng, (3, 3))
    for kw in ({}, {"axis": 0}, {"axisa": 0, "axisb": 1}, {"axisc": 0}, {"axisa": 1, "axisb": 0, "axisc": 0}):
        add("cross", "options %s" % kw, (lambda m, a, b, kw=kw: m.cross(a, b, **kw)), [c33a, c33b], [0, 1], True)
    add("cross", "(2,) x (3,) mixed lengths", (lambda m, a, b: m.cross(a, b)), [R.iarr(rng, (2,)), R.iarr(rng, (3,))], [0, 1], True)
    x4 = R.iarr(rng, (4,))
    x24 = R.iarr(rng, (2, 4))
    for name, kws, xs in (("fft.fft", {"axis": 0}, x24), ("fft.fft", {"n": 3, "axis": -1}, x24), ("fft.ifft", {"n": 6}, x4), ("fft.fft2", {"axes": (1, 0)}, x24),
                          ("fft.fft2", {"s": (2, 3)}, x24), ("fft.fftn", {"axes": (0,)}, x24), ("fft.fftn", {"s": (3,), "axes": (1,)}, x24),
                          ("fft.ifftn", {"axes": (-1, -2)}, x24), ("fft.fft", {"norm": "forward"}, x4), ("fft.ifft", {"norm": "ortho"}, x4),
                          ("fft.rfft", {"n": 6}, x4), ("fft.rfft", {"axis": 0}, R.iarr(rng, (4, 2))), ("fft.irfft", {"n": 4}, R.iarr(rng, (3,))),
                          ("fft.rfft2", {}, R.iarr(rng, (2, 4))), ("fft.irfft2", {"s": (2, 4)}, R.iarr(rng, (2, 3))), ("fft.rfftn", {"axes": (0, 1)}, R.iarr(rng, (2, 4))),
                          ("fft.fftshift", {}, x24), ("fft.fftshift", {"axes": 1}, x24), ("fft.ifftshift", {"axes": (0,)}, x24)):
        mod_, fn_ = name.split(".")
        add(name, "options %s shape %s" % (kws, xs.shape), (lambda m, z, fn_=fn_, kws=kws: getattr(m.fft, fn_)(z, **kws)), [xs], [0], False)
    add("linspace", "both ends traced, endpoint=False", (lambda m, a, b: m.linspace(a, b, 4, endpoint=False)), [1.0, 3.0], [0, 1], False)
    add("linspace", "array ends", (lambda m, a, b: m.linspace(a, b, 3)), [R.iarr(rng, (2,)), R.iarr(rng, (2,))], [0, 1], True)
    add("gradient", "1-D edge_order=2", (lambda m, z: m.gradient(z, edge_order=2)), [R.iarr(rng, (5,))], [0], True, modes=("rev",))
    for nn in (2, 3):
        add("diff", "n=%d 1-D" % nn, (lambda m, z, nn=nn: m.diff(z, n=nn)), [R.iarr(rng, (6,))], [0], True)
    add("rollaxis", "3,1", (lambda m, z: m.rollaxis(z, 2, 1)), [R.iarr(rng, (2, 3, 2))], [0], True)
    add("select", "three conditions", (lambda m, z: m.select([z > 1.5, z < -1.5, z == 0.0], [z * 2.0, -z, z + 1.0], default=z * 3.0)), [R.distinct(rng, (2, 3))], [0], False)
    add("nan_to_num", "finite", (lambda m, z: m.nan_to_num(z)), [R.iarr(rng, (2, 3))], [0], True)
    add("real_if_close", "real input", (lambda m, z: m.real_if_close(z)), [R.iarr(rng, (2, 3))], [0], True)
    add("logaddexp", "broadcast", (lambda m, a, b: m.logaddexp(a, b)), [R.distinct(rng, (2, 3)), R.distinct(rng, (3,))], [0, 1], False)
    add("arctan2", "broadcast, all quadrants", (lambda m, a, b: m.arctan2(a, b)), [R.distinct(rng, (2, 3)), R.distinct(rng, (3,))], [0, 1], False)
    add("mod", "negative operands", (lambda m, a, b: m.mod(a, b)), [onp.array([-3.5, 2.5, -1.25, 4.75]), onp.array([2.0, -2.0, -1.0, 1.5])], [0, 1], False)
    add("true_divide", "broadcast", (lambda m, a, b: m.true_divide(a, b)), [R.distinct(rng, (2, 3)), R.positive(rng, (3,))], [0, 1], False)
    # ---- (0h) stacks of matrices with 1-D right-hand sides; differences past the end ----
    def spd_stack2(k, n):
        return onp.stack([(lambda a_: a_ @ a_.T + n * onp.eye(n))(R.distinct(rng, (n, n))) for _ in range(k)])
    for k_ in (2, 3):
        add("linalg.solve", "stack of %d matrices, 1-D right-hand side" % k_, (lambda m, a, b: m.linalg.solve(a, b)),
            [spd_stack2(k_, 3), R.distinct(rng, (3,))], [0, 1], False)
    for nn, sh in ((2, (1,)), (3, (2,)), (2, (2,)), (2, (1, 3)), (4, (3,))):
        add("diff", "n=%d on shape %s (more differences than elements)" % (nn, sh), (lambda m, z, nn=nn: m.diff(z, n=nn, axis=0)), [R.iarr(rng, sh)], [0], False, modes=("rev",))
    for nn, sh in ((3, (2,)), (5, (3,))):
        add("diff", "n=%d on a COMPLEX array of shape %s (more differences than elements)" % (nn, sh), (lambda m, z, nn=nn: m.diff(z, n=nn, axis=0)),
            [R.iarr(rng, sh) + 1j * R.iarr(rng, sh)], [0], False, modes=("rev",))
    # ---- (0i) more option spellings ----
    la, lb = R.iarr(rng, (2,)), R.iarr(rng, (2,))
    for kw in ({"axis": 1}, {"axis": -1}, {"axis": 0}, {"endpoint": False, "axis": 1}, {"endpoint": False}):
        add("linspace", "array ends %s" % kw, (lambda m, a, b, kw=kw: m.linspace(a, b, 3, **kw)), [la, lb], [0, 1], "endpoint" not in kw)
    add("linspace", "matrix ends axis=1", (lambda m, a, b: m.linspace(a, b, 3, axis=1)), [R.iarr(rng, (2, 2)), R.iarr(rng, (2, 2))], [0, 1], True)
    def symm(n):
        a_ = R.distinct(rng, (n, n))
        return a_ @ a_.T + n * onp.eye(n)
    for uplo in ("L", "U", "l", "u"):
        # only the named triangle is read: perturbing the matrix asymmetrically tells the triangles apart
        add("linalg.eigh", "UPLO=%r eigenvalues" % uplo, (lambda m, a, uplo=uplo: m.linalg.eigh(a, uplo)[0]), [symm(3)], [0], False, modes=("rev",))
        add("linalg.eigh", "UPLO=%r keyword, eigenvalues" % uplo, (lambda m, a, uplo=uplo: m.linalg.eigh(a, UPLO=uplo)[0]), [symm(3)], [0], False, modes=("rev",))
    x44 = R.distinct(rng, (4, 4))
    for nrm in (None, "backward", "ortho", "forward"):
        for fn_ in ("fft", "ifft", "fft2", "ifft2", "fftn", "ifftn", "rfft", "rfft2", "rfftn", "irfft", "irfft2", "irfftn"):
            add("fft." + fn_, "norm=%r" % (nrm,), (lambda m, z, fn_=fn_, nrm=nrm: getattr(m.fft, fn_)(z, norm=nrm)), [x44], [0], False)
    # ---- (0j) rows pinning repairs made after sub-agent reports ----
    kink("absolute", "entries equal to 0", (lambda m, z: m.absolute(z)), [onp.array([0.0, 1.5, -2.0, 0.0])])
    add("absolute", "generic point", (lambda m, z: m.absolute(z)), [R.distinct(rng, (2, 3))], [0], False)
    c333 = R.distinct(rng, (3, 3, 3))
    for name in ("max", "min", "amax", "amin", "sum", "mean", "var", "std", "prod", "cumsum"):
        for ax in (onp.int64(1), onp.intp(0), onp.int32(-1)):
            add(name, "cubic input, axis=np.%s(%d)" % (type(ax).__name__, int(ax)), (lambda m, z, name=name, ax=ax: getattr(m, name)(z, axis=ax)), [c333], [0], False)
            if name in ("max", "min", "sum", "mean"):
                add(name, "cubic input, keepdims, axis=np.%s(%d)" % (type(ax).__name__, int(ax)),
                    (lambda m, z, name=name, ax=ax: getattr(m, name)(z, axis=ax, keepdims=True)), [c333], [0], False)
    xs3 = onp.array([1.0, 3.0, -1.0])
    add("clip", "array lower bound broadcasting x", (lambda m, z: m.clip(z, onp.array([[0.0, 0.5, -2.0], [2.0, -1.0, -3.0]]), 2.5)), [xs3], [0], False)
    add("clip", "array upper bound broadcasting x", (lambda m, z: m.clip(z, -5.0, onp.array([[0.5], [2.0]]))), [xs3], [0], False)
    add("clip", "both bounds arrays of a larger rank", (lambda m, z: m.clip(z, onp.full((2, 1, 3), -0.5), onp.full((2, 2, 3), 2.5))), [xs3], [0], False)
    for sh, tgt in (((1, 3), (0, 3)), ((1, 1), (0, 0)), ((2, 1), (2, 0)), ((1, 3), (1, 3)), ((1, 3), (4, 3))):
        add("broadcast_to", "%s -> %s" % (sh, tgt), (lambda m, z, tgt=tgt: m.broadcast_to(z, tgt)), [R.iarr(rng, sh)], [0], True, modes=("rev",))
    hp = R.half_ints(rng, (2, 3))
    for dt in (int, "int64", bool, onp.int32, "uint8"):
        add("astype", "to %s (piecewise constant)" % (dt if isinstance(dt, str) else dt.__name__), (lambda m, z, dt=dt: z.astype(dt) * 1.0 + 0.0 * z), [hp], [0], False)
    for dt in (float, "float32", complex):
        add("astype", "to %s" % (dt if isinstance(dt, str) else dt.__name__), (lambda m, z, dt=dt: z.astype(dt) * 2.0), [R.iarr(rng, (2, 3))], [0], True, modes=("rev",))
    i23b = R.iarr(rng, (2, 3))
    for nm, f in (("ravel(x.T, order='A')", lambda m, z: m.ravel(z.T, order="A")), ("reshape(x.T, (6,), order='A')", lambda m, z: m.reshape(z.T, (6,), order="A")),
                  ("reshape(x.T, (2,3), order='A')", lambda m, z: m.reshape(z.T, (2, 3), order="A")), ("ravel(x, order='A')", lambda m, z: m.ravel(z, order="A")),
                  ("x.T.ravel('A')", lambda m, z: z.T.ravel("A")), ("swapaxes then reshape order='A'", lambda m, z: m.reshape(m.swapaxes(z, 0, 1), (3, 2), order="A")),
                  ("reshape(x.T.copy-free slice, order='A')", lambda m, z: m.reshape(z.T[::-1], (6,), order="A"))):
        add("reshape", nm, f, [i23b], [0], True)
    add("reshape", "order='A' of a Fortran-ordered argument", (lambda m, z: m.reshape(z, (3, 2), order="A")), [onp.asfortranarray(i23b)], [0], True)
    for nm_, f_ in (("ravel(x, order='K')", lambda m, z: m.ravel(z, order="K")), ("x.ravel('K')", lambda m, z: z.ravel("K")),
                    ("reshape(x, (6,), order='K')-free: flatten('K')", lambda m, z: z.flatten("K"))):
        add("ravel", nm_ + " of a Fortran-ordered argument ('A')", f_, [onp.asfortranarray(i23b)], [0], True)
        add("ravel", nm_ + " of a C-ordered argument ('A')", f_, [i23b], [0], True)
    add("ravel", "order='A' of a Fortran-ordered argument", (lambda m, z: m.ravel(z, order="A")), [onp.asfortranarray(i23b)], [0], True)
    for k_ in (2, 3, 4):
        add("array", "list of traced scalars, ndmin=%d" % k_, (lambda m, a, b, k_=k_: m.array([a, 2.0, b], ndmin=k_)), [1.5, -0.5], [0, 1], True)
        add("array", "list of traced rows, ndmin=%d" % k_, (lambda m, a, k_=k_: m.array([a, a * 2.0], ndmin=k_)), [R.iarr(rng, (3,))], [0], True)
        add("array", "nested list of entries, ndmin=%d" % k_, (lambda m, a, k_=k_: m.array([[a[0], 1.0], [2.0, a[1]]], ndmin=k_)), [R.iarr(rng, (2,))], [0], True)
    add("sum", "dtype=complex of a real x", (lambda m, z: m.sum(z, dtype=complex) * (1.0 + 2.0j)), [R.iarr(rng, (2, 3))], [0], True, modes=("rev",))
    add("sum", "dtype=complex axis=0 of a real x", (lambda m, z: m.sum(z, axis=0, dtype=complex) * (1.0 + 2.0j)), [R.iarr(rng, (2, 3))], [0], True, modes=("rev",))
    for dt in (int, bool, "int32"):
        add("array", "array(x, dtype=%s) (piecewise constant)" % (dt if isinstance(dt, str) else dt.__name__), (lambda m, z, dt=dt: m.array(z, dtype=dt) * 1.0 + 0.0 * z), [R.half_ints(rng, (2, 3))], [0], False)
        add("array", "array(x, %s) positional dtype" % (dt if isinstance(dt, str) else dt.__name__), (lambda m, z, dt=dt: m.array(z, dt) * z), [R.half_ints(rng, (2, 3))], [0], False)
    # ---- conversions and constructors whose result type / shape differs from the argument's (batch 10 reports) ----
    for dt in (int, bool):
        add("array", "list of traced entries converted to %s (piecewise constant)" % dt.__name__, (lambda m, z, dt=dt: m.array([z, z + 0.25], dtype=dt) * 1.0 + 0.0 * z), [2.5], [0], False)
        add("array", "list of traced rows converted to %s" % dt.__name__, (lambda m, z, dt=dt: m.array([z, z + 0.25], dt) * 1.0 + 0.0 * m.sum(z)), [R.half_ints(rng, (3,))], [0], False)
    add("array", "list of traced entries, dtype=float32, then summed", (lambda m, z: m.sum(m.array([z, 2.0 * z], dtype=onp.float32))), [R.iarr(rng, (3,))], [0], True, modes=("rev",))
    for dt in (int, bool):
        add("full", "fill value converted to %s (piecewise constant)" % dt.__name__, (lambda m, z, dt=dt: m.full((2, 3), z, dtype=dt) * 1.0 + 0.0 * z), [2.5], [0], False)
        add("full", "array fill value converted to %s" % dt.__name__, (lambda m, z, dt=dt: m.full((2, 3), z, dtype=dt) * 1.0 + 0.0 * z), [R.half_ints(rng, (3,))], [0], False)
    add("full", "dtype=float32 of a float64 fill array", (lambda m, z: m.full((2, 3), z, dtype=onp.float32) * 2.0), [R.iarr(rng, (3,))], [0], True, modes=("rev",))
    add("array", "array(x, dtype=float32) of a float64 x", (lambda m, z: m.array(z, dtype=onp.float32) * 2.0), [R.iarr(rng, (2, 3))], [0], True, modes=("rev",))
    # (the cotangent of a float32 result is a float32 array: produced here by the full reduction that follows, as `grad` does)
    add("array", "sum(array(x, dtype=float32)) of a float64 x", (lambda m, z: m.sum(m.array(z, dtype=onp.float32))), [R.iarr(rng, (2, 3))], [0], True, modes=("rev",))
    add("full", "sum(full((2,3), x, dtype=float32)) of a float64 fill array", (lambda m, z: m.sum(m.full((2, 3), z, dtype=onp.float32))), [R.iarr(rng, (3,))], [0], True, modes=("rev",))
    add("array", "array(x, float32, ndmin=3)", (lambda m, z: m.array(z, onp.float32, ndmin=3) * 2.0), [R.iarr(rng, (2, 3))], [0], True, modes=("rev",))
    for tag, a0, a1 in (("scalar start, array stop", 0.5, onp.array([1.0, 2.0])), ("array start, scalar stop", onp.array([1.0, 2.0, -1.0]), 3.0),
                        ("(2,1) start, (3,) stop", onp.array([[1.0], [2.0]]), onp.array([0.0, 1.0, 4.0])), ("0-d array start, array stop", onp.array(0.5), onp.array([1.0, 2.0]))):
        add("linspace", tag + ", 5 points", (lambda m, a, b: m.linspace(a, b, 5)), [a0, a1], [0, 1], True)
    # ---- keepdims of linalg.norm (refused by the pinned tree; if it is accepted, both modes have to be right) ----
    n34, n234 = R.distinct(rng, (3, 4)), R.distinct(rng, (2, 3, 4))
    for kw in ({"keepdims": True}, {"ord": "fro", "keepdims": True}, {"ord": "nuc", "keepdims": True}, {"ord": 3, "axis": 1, "keepdims": True},
               {"axis": 0, "keepdims": True}, {"ord": 2, "axis": -1, "keepdims": True}):
        add("linalg.norm", "matrix %s" % kw, (lambda m, z, kw=kw: m.linalg.norm(z, **kw)), [n34], [0], False)
    for kw in ({"ord": "nuc", "axis": (-2, -1), "keepdims": True}, {"axis": (0, 2), "keepdims": True}, {"ord": "fro", "axis": (1, 2), "keepdims": True}):
        add("linalg.norm", "3-D %s" % kw, (lambda m, z, kw=kw: m.linalg.norm(z, **kw)), [n234], [0], False)
    add("linalg.norm", "vector ord=3 keepdims", (lambda m, z: m.linalg.norm(z, 3, keepdims=True)), [R.distinct(rng, (4,))], [0], False)
    # ---- where= masks of the reductions (raise-or-right; no slice is masked out completely: the mean of nothing is NaN in NumPy itself) ----
    msk23 = onp.array([[True, False, True], [False, True, True]])
    d23 = R.distinct(rng, (2, 3))
    for rn in ("mean", "var", "std", "sum", "prod", "max", "min"):
        for kw in ({"where": msk23}, {"where": msk23, "axis": 1}, {"where": msk23[:, :1], "axis": 0, "keepdims": True}):
            if rn in ("max", "min"):
                kw = dict(kw, initial=(-9.0 if rn == "max" else 9.0))
            add(rn, "masked: %s" % ", ".join("%s=%s" % (k_, "mask" if k_ == "where" else v_) for k_, v_ in kw.items()),
                (lambda m, z, rn=rn, kw=kw: getattr(m, rn)(z * 1.0, **kw)), [d23], [0], False)
    # ---- (0k) magnitudes at which squares overflow / underflow (the rules must not square what NumPy does not) ----
    big, small = onp.array([3.0e200, -1.0e180, 2.5e160]), onp.array([3.0e-200, -1.0e-180, 2.5e-170])
    for mag, pts in (("huge", big), ("tiny", small)):
        q = pts[::-1] * 0.5
        # (divide, reciprocal, arctan2 and norm square their arguments in the rule and overflow / underflow at 1e+-200 at the
        #  pinned tree already: observed, outside "well-scaled", not rows)
        for name, f2 in (("hypot", lambda m, a, b: m.hypot(a, b)), ("maximum", lambda m, a, b: m.maximum(a, b)), ("subtract", lambda m, a, b: a - b)):
            paired(name, "%s operands" % mag, f2, [pts, q], (0, 1))
        for name, f1 in (("abs", lambda m, a: m.abs(a)), ("sqrt", lambda m, a: m.sqrt(m.abs(a))), ("sign*x", lambda m, a: m.sign(a) * a),
                         ("max", lambda m, a: m.max(a)), ("sum", lambda m, a: m.sum(a)), ("mean", lambda m, a: m.mean(a)), ("cumsum", lambda m, a: m.cumsum(a)), ("sort", lambda m, a: m.sort(a)),
                         ("log", lambda m, a: m.log(m.abs(a))), ("cbrt-free power", lambda m, a: m.abs(a) ** 0.5)):
            paired(name, "%s entries" % mag, f1, [pts])
    # ---- (0l) stacks of n matrices of size n x n (an axis mix-up goes unnoticed by shape) ----
    S3 = spd_stack2(3, 3)
    for name, f in (("linalg.det", lambda m, a: m.linalg.det(a)), ("linalg.slogdet", lambda m, a: m.linalg.slogdet(a)[1]), ("linalg.inv", lambda m, a: m.linalg.inv(a)),
                    ("linalg.cholesky", lambda m, a: m.linalg.cholesky((a + m.swapaxes(a, -1, -2)) / 2)), ("linalg.eigh", lambda m, a: m.linalg.eigh((a + m.swapaxes(a, -1, -2)) / 2)[0]),
                    ("linalg.svd", lambda m, a: m.linalg.svd(a, compute_uv=False)), ("linalg.pinv", lambda m, a: m.linalg.pinv(a)), ("linalg.norm", lambda m, a: m.linalg.norm(a, axis=(-2, -1))),
                    ("trace", lambda m, a: m.trace(a, axis1=-2, axis2=-1)), ("trace-default", lambda m, a: m.trace(a)), ("diagonal", lambda m, a: m.diagonal(a, 0, -1, -2)),
                    ("matmul", lambda m, a: m.matmul(a, a)), ("transpose-last-two", lambda m, a: m.swapaxes(a, -1, -2) * a), ("einsum-batched", lambda m, a: m.einsum("bij,bjk->bik", a, a)),
                    ("tensordot", lambda m, a: m.tensordot(a, a, axes=([2], [1]))), ("dot", lambda m, a: m.dot(a, a[0]))):
        add(name, "stack of three 3x3", f, [S3], [0], False)
    add("linalg.solve", "stack of three 3x3, stack of vectors as columns", (lambda m, a, b: m.linalg.solve(a, b)), [S3, R.distinct(rng, (3, 3, 1))], [0, 1], False)
    add("linalg.solve", "stack of three 3x3, (3,3) right-hand side", (lambda m, a, b: m.linalg.solve(a, b)), [S3, R.distinct(rng, (3, 3))], [0, 1], False)
    # ---- (a) the same array object in two argument positions: the derivative is the sum over both positions ----
    v4 = R.distinct(rng, (4,))
    p4 = R.positive(rng, (4,))
    m22 = R.distinct(rng, (2, 2))
    m23 = R.distinct(rng, (2, 3))
    for name in ("add", "subtract", "multiply", "maximum", "minimum", "fmax", "fmin", "logaddexp", "hypot", "arctan2", "true_divide",
                 "divide", "power", "copysign"):
        x = p4 if name in ("power", "divide", "true_divide", "arctan2", "hypot") else v4
        add(name, "f(x, x) same object", (lambda m, a, name=name: getattr(m, name)(a, a)), [x], [0], False)
        add(name, "f(x, x[::-1]) views of one array", (lambda m, a, name=name: getattr(m, name)(a, a[::-1])), [x], [0], False)
    for tag, f, x in (("dot(x, x)", lambda m, a: m.dot(a, a), v4), ("dot(M, M)", lambda m, a: m.dot(a, a), m22),
                      ("matmul(M, M.T)", lambda m, a: m.matmul(a, a.T), m23), ("outer(x, x)", lambda m, a: m.outer(a, a), v4),
                      ("inner(x, x)", lambda m, a: m.inner(a, a), v4), ("tensordot(M, M, 2)", lambda m, a: m.tensordot(a, a, 2), m23),
                      ("kron(x, x)", lambda m, a: m.kron(a, a), R.distinct(rng, (2,))), ("einsum('i,i->', x, x)", lambda m, a: m.einsum("i,i->", a, a), v4),
                      ("einsum('ij,jk->ik', M, M)", lambda m, a: m.einsum("ij,jk->ik", a, a), m22), ("cross(x, x+1)", lambda m, a: m.cross(a, a + 1.0), R.distinct(rng, (3,))),
                      ("where(c, x, x)", lambda m, a: m.where(onp.array([True, False, True, False]), a, a), v4),
                      ("concatenate([x, x])", lambda m, a: m.concatenate([a, a]), v4), ("stack([x, x, x])", lambda m, a: m.stack([a, a, a]), v4),
                      ("x @ x", lambda m, a: a @ a, m22), ("x * x - x / x", lambda m, a: a * a - a / a, p4), ("x ** x", lambda m, a: a ** a, p4),
                      ("linalg.solve(M, M)", lambda m, a: m.linalg.solve(a + 3 * onp.eye(2), a), m22),
                      ("clip(x, x-1, x+1)*x", lambda m, a: m.clip(a, -0.5, 0.5) * a, v4), ("x[idx] * x", lambda m, a: a[[0, 0, 3, 1]] * a, v4)):
        add("alias", tag, f, [x], [0], False)
    # ---- (b) special values (regular points of the function, special for a careless rule) ----
    sv = onp.array([0.0, 1.0, -1.0, 2.0, 0.5])
    for name in ("sin", "cos", "tan", "sinh", "cosh", "tanh", "exp", "expm1", "arctan", "arcsinh", "square", "negative", "sinc",
                 "exp2", "deg2rad", "rad2deg"):
        add(name, "at 0, 1, -1, 2", (lambda m, a, name=name: getattr(m, name)(a)), [sv], [0], False)
    pv = onp.array([1.0, 2.0, 0.5, 4.0])
    for name in ("log", "log2", "log10", "log1p", "sqrt", "reciprocal", "arccosh_shift", "cbrt_missing"):
        if name == "arccosh_shift":
            add("arccosh", "at 2, 3", (lambda m, a: m.arccosh(a + 1.0)), [pv], [0], False)
        elif hasattr(onp, name):
            add(name, "at 1, 2, 1/2, 4", (lambda m, a, name=name: getattr(m, name)(a)), [pv], [0], False)
    add("arcsin", "at 0, 1/2", (lambda m, a: m.arcsin(a)), [onp.array([0.0, 0.5, -0.5])], [0], False)
    add("arccos", "at 0, 1/2", (lambda m, a: m.arccos(a)), [onp.array([0.0, 0.5, -0.5])], [0], False)
    add("arctanh", "at 0, 1/2", (lambda m, a: m.arctanh(a)), [onp.array([0.0, 0.5, -0.5])], [0], False)
    add("abs", "at 1, -1, 2", (lambda m, a: m.abs(a)), [onp.array([1.0, -1.0, 2.0])], [0], False)
    add("sign*x", "at 1, -1, 2", (lambda m, a: m.sign(a) * a), [onp.array([1.0, -1.0, 2.0])], [0], False)
    for name, xs, ys in (("multiply", [0.0, 1.0, 2.0, -1.0], [2.0, 0.0, 1.0, 1.0]), ("divide", [0.0, 1.0, 2.0, 1.0], [2.0, 1.0, 2.0, -1.0]),
                         ("subtract", [1.0, 0.0, 2.0, 2.0], [1.0, 0.0, 1.0, 2.0]), ("add", [0.0, 1.0, -1.0, 0.0], [0.0, -1.0, 1.0, 2.0]),
                         ("power", [1.0, 2.0, 2.0, 0.5], [2.0, 1.0, 0.0, 1.0]), ("power", [1.0, 1.0, 4.0, 2.0], [0.0, 5.0, 0.5, 2.0]),
                         ("arctan2", [0.0, 1.0, 1.0, -1.0], [1.0, 0.0, 1.0, 1.0]), ("hypot", [0.0, 1.0, 3.0, 1.0], [1.0, 0.0, 4.0, 1.0]),
                         ("logaddexp", [0.0, 1.0, 0.0, -1.0], [0.0, 1.0, 1.0, 1.0]), ("logaddexp2", [0.0, 1.0, 0.0, 2.0], [0.0, 1.0, 1.0, 2.0]),
                         ("maximum", [0.0, 1.0, 2.0, -1.0], [1.0, 0.0, 1.0, 0.0]), ("minimum", [0.0, 1.0, 2.0, -1.0], [1.0, 0.0, 1.0, 0.0]),
                         ("mod", [2.5, 3.5, 4.5, 5.5], [1.0, 2.0, 1.0, 2.0]), ("fmod_missing", [1.0], [1.0])):
        if hasattr(onp, name):
            add(name, "operands with 0, 1, equal", (lambda m, a, b, name=name: getattr(m, name)(a, b)), [onp.array(xs), onp.array(ys)], [0, 1], False)
    add("prod", "with a 1", (lambda m, a: m.prod(a)), [onp.array([1.0, 2.0, 3.0, 1.0])], [0], False)
    add("prod", "axis, with ones", (lambda m, a: m.prod(a, axis=0)), [onp.array([[1.0, 2.0], [3.0, 1.0]])], [0], False)
    add("cumprod-like", "cumsum of squares at 0", (lambda m, a: m.cumsum(a * a)), [onp.array([0.0, 1.0, 0.0, 2.0])], [0], False)
    add("var", "constant slice", (lambda m, a: m.var(a, axis=1)), [onp.array([[1.0, 1.0, 1.0], [1.0, 2.0, 4.0]])], [0], False)
    add("mean", "zeros", (lambda m, a: m.mean(a * a)), [onp.zeros(3)], [0], False)
    add("linalg.norm", "axis, one zero row excluded", (lambda m, a: m.linalg.norm(a, axis=1)), [onp.array([[3.0, 4.0], [1.0, 0.0]])], [0], False)
    add("linalg.norm", "unit vector", (lambda m, a: m.linalg.norm(a)), [onp.array([1.0, 0.0, 0.0])], [0], False)
    add("linalg.det", "identity", (lambda m, a: m.linalg.det(a)), [onp.eye(3)], [0], False)
    add("linalg.inv", "identity", (lambda m, a: m.linalg.inv(a)), [onp.eye(2)], [0], False)
    add("linalg.solve", "identity", (lambda m, a, b: m.linalg.solve(a, b)), [onp.eye(2), onp.array([1.0, 0.0])], [0, 1], False)
    add("dot", "with zeros and identity", (lambda m, a, b: m.dot(a, b)), [onp.eye(2), onp.zeros((2, 2))], [0, 1], True)
    add("matmul", "zero vector", (lambda m, a, b: m.matmul(a, b)), [onp.array([[1.0, 2.0], [0.0, 1.0]]), onp.zeros(2)], [0, 1], True)
    add("max", "distinct but integer-valued", (lambda m, a: m.max(a, axis=0)), [onp.array([[1.0, 5.0], [3.0, 2.0]])], [0], False)
    add("sort", "integer-valued", (lambda m, a: m.sort(a)), [onp.array([3.0, 1.0, 2.0, 0.0])], [0], False)
    add("where", "x at 0 selected", (lambda m, a: m.where(a > 0.5, a * a, a)), [onp.array([0.0, 1.0, 2.0, -1.0])], [0], False)
    add("clip", "interior incl. 0", (lambda m, a: m.clip(a, -2.0, 2.0)), [onp.array([0.0, 1.0, -1.0])], [0], False)
    # ---- (c) Python-level operand types for the argument that is NOT differentiated ----
    x3 = R.iarr(rng, (3,))
    for tag, f in (("x * 2 (int)", lambda m, a: a * 2), ("2 * x (int)", lambda m, a: 2 * a), ("x + True", lambda m, a: a + True), ("x - 1 (int)", lambda m, a: a - 1),
                   ("1 - x", lambda m, a: 1 - a), ("multiply(x, 3)", lambda m, a: m.multiply(a, 3)), ("add(x, [1,2,3])", lambda m, a: m.add(a, [1, 2, 3])),
                   ("multiply([1,2,3], x)", lambda m, a: m.multiply([1, 2, 3], a)), ("x * np.float32(2)", lambda m, a: a * onp.float32(2.0)),
                   ("x * np.int64(3)", lambda m, a: a * onp.int64(3)), ("np.float64(2) * x", lambda m, a: onp.float64(2.0) * a),
                   ("dot(x, [1,2,3])", lambda m, a: m.dot(a, [1, 2, 3])), ("dot([[1,2,3],[4,5,6]], x)", lambda m, a: m.dot([[1, 2, 3], [4, 5, 6]], a)),
                   ("x / 2 (int)", lambda m, a: a / 2), ("x * (1, 2, 3) tuple", lambda m, a: m.multiply(a, (1, 2, 3))),
                   ("subtract(x, np.arange(3)) int array", lambda m, a: m.subtract(a, onp.arange(3))), ("x * bool array", lambda m, a: a * onp.array([True, False, True])),
                   ("where(list cond)", lambda m, a: m.where([True, False, True], a, 0)), ("x[np.int64(1)]", lambda m, a: a[onp.int64(1)] + a),
                   ("x[True-mask list]", lambda m, a: a[[True, False, True]]), ("tensordot(x, [[1],[2],[3]], 1)", lambda m, a: m.tensordot(a, [[1], [2], [3]], 1)),
                   ("concatenate([x, [1.0, 2.0]])", lambda m, a: m.concatenate([a, [1.0, 2.0]])),
                   ("outer(x, range)", lambda m, a: m.outer(a, onp.arange(2)))):
        add("python-operands", tag, f, [x3], [0], True)
    for tag, f in (("x ** 2 (int)", lambda m, a: a ** 2), ("x ** np.int64(3)", lambda m, a: a ** onp.int64(3)), ("x ** 2.0", lambda m, a: a ** 2.0),
                   ("power(x, [1,2,3])", lambda m, a: m.power(a, [1, 2, 3])), ("2 ** x", lambda m, a: 2 ** a), ("np.float32(2) ** x", lambda m, a: onp.float32(2.0) ** a),
                   ("x ** -1 (int)", lambda m, a: a ** -1), ("x ** 0 (int)", lambda m, a: a ** 0 + a), ("x ** True", lambda m, a: a ** True),
                   ("x / [1,2,4]", lambda m, a: a / [1, 2, 4]), ("[1,2,4] / x", lambda m, a: m.divide([1, 2, 4], a)), ("arctan2(x, 1)", lambda m, a: m.arctan2(a, 1)),
                   ("hypot(3, x)", lambda m, a: m.hypot(3, a)), ("logaddexp(x, 0)", lambda m, a: m.logaddexp(a, 0)),
                   ("maximum(x, 0) int", lambda m, a: m.maximum(a, 0)), ("minimum(9, x) int", lambda m, a: m.minimum(9, a))):
        add("python-operands", tag, f, [R.positive(rng, (3,))], [0], False)
    return out
